package main

import (
	"encoding/json"
	"flag"
	"fmt"
	"os"
	"os/exec"
	"path/filepath"
	"runtime"
	"runtime/debug"
	"runtime/pprof"
	"sort"
	"strings"
	"time"
)

const verifDir = "/verif"

type HSpec struct {
	Name          string            `json:"name"`
	Pkgs          []string          `json:"pkgs"`
	Entry         string            `json:"entry"` // "<pkg path relative to module>.<Func>", e.g. "common.ZZ_C07_A"
	Files         map[string]string `json:"files"` // repo-relative overlay path -> /verif-relative source
	InitPkgs      []string          `json:"init_pkgs"`
	Tiers         []string          `json:"tiers"` // default both
	Solver        string            `json:"solver"`
	Cross         []string          `json:"cross"`
	TimeoutMs     int               `json:"timeout_ms"`
	MaxPreempts   int               `json:"max_preempts"`
	CollisionFree bool              `json:"collision_free"`
	MaxSteps      int64             `json:"max_steps"`
	MaxFanout     int               `json:"max_fanout"`
	MaxPaths      int64             `json:"max_paths"`
	Covers        []string          `json:"covers"` // labels that must be reached
	Decides       string            `json:"decides"`
	Bounds        map[string]string `json:"bounds"` // tier -> text
	Stubs         []string          `json:"stubs"`
	Assumptions   []string          `json:"assumptions"`
	NoReplay      bool              `json:"no_replay"`
	IntMode       bool              `json:"int_mode"`
	MaxWallS      map[string]int    `json:"max_wall_s"`
	StubFiles     map[string]string `json:"stub_files"` // native replay only: rewrite (see replay.go)
}

type Spec struct {
	Property    string   `json:"property"`
	Title       string   `json:"title"`
	Harnesses   []HSpec  `json:"harnesses"`
	Outside     []string `json:"outside"`
	TrustedBase []string `json:"trusted_base"`
}

type KnownFinding struct {
	Property string `json:"property"`
	ID       string `json:"id"`
	Harness  string `json:"harness"`
	Kind     string `json:"kind"`          // assert | panic
	Site     string `json:"site_contains"` // substring of label/site
	Cover    string `json:"requires_cover"`
	What     string `json:"what"`
	Status   string `json:"status"` // open | fixed
	Commit   string `json:"commit,omitempty"`
}

func loadSpec(prop string) (*Spec, error) {
	b, err := os.ReadFile(filepath.Join(verifDir, "harness/specs", prop+".json"))
	if err != nil {
		return nil, err
	}
	var s Spec
	if err := json.Unmarshal(b, &s); err != nil {
		return nil, fmt.Errorf("spec %s: %v", prop, err)
	}
	return &s, nil
}

func loadKnown() []KnownFinding {
	b, err := os.ReadFile(filepath.Join(verifDir, "known_findings.json"))
	if err != nil {
		return nil
	}
	var k struct {
		Findings []KnownFinding `json:"findings"`
	}
	if json.Unmarshal(b, &k) != nil {
		return nil
	}
	return k.Findings
}

type HResult struct {
	Spec     HSpec
	Res      Results
	Encoded  map[string]int
	Wall     time.Duration
	LoadWall time.Duration
	Replays  []ReplayOutcome
	Err      string
}

func defaultInitPkgs() map[string]bool {
	m := map[string]bool{}
	for _, p := range []string{"common", "crypto", "config", "kernel", "storage", "p2p", "util", "logger", "zzrt", "kernel/internal/clock", "p2p/internal"} {
		m[modPath+"/"+p] = true
	}
	for _, p := range []string{"io", "bytes", "encoding/hex", "encoding/binary"} {
		m[p] = true
	}
	return m
}

func runHarness(h HSpec, tier int, seed int64, trace bool, logDir string) *HResult {
	hr := &HResult{Spec: h}
	t0 := time.Now()
	l, err := loadProgram(h.Pkgs, h.Files, verifDir)
	if err != nil {
		hr.Err = "load: " + err.Error()
		return hr
	}
	hr.LoadWall = time.Since(t0)
	i := strings.LastIndex(h.Entry, ".")
	pkgPath := modPath + "/" + h.Entry[:i]
	pkg := l.pkgs[pkgPath]
	if pkg == nil {
		hr.Err = "no package " + pkgPath
		return hr
	}
	fn := pkg.Func(h.Entry[i+1:])
	if fn == nil {
		hr.Err = "no entry function " + h.Entry
		return hr
	}
	cfg := Config{Workers: runtime.NumCPU(), TimeoutMs: 60000, MaxSteps: 20_000_000, MaxFanout: 300, MaxPaths: 0,
		Solver: "z3", Tier: tier, Seed: seed, Trace: trace, LogDir: logDir, MaxWitness: 12}
	cfg.MaxWallS = 900
	if tier == 1 {
		cfg.TimeoutMs = 300000
		cfg.MaxWallS = 4 * 3600
	}
	if v, ok := h.MaxWallS[[]string{"quick", "thorough"}[tier]]; ok {
		cfg.MaxWallS = v
	}
	if h.Solver != "" {
		cfg.Solver = h.Solver
	}
	cfg.CrossSolvers = h.Cross
	cfg.IntMode = h.IntMode
	cfg.MaxPreempts = h.MaxPreempts
	cfg.CollisionFree = h.CollisionFree
	if h.TimeoutMs > 0 {
		cfg.TimeoutMs = h.TimeoutMs
	}
	if h.MaxSteps > 0 {
		cfg.MaxSteps = h.MaxSteps
	}
	if h.MaxFanout > 0 {
		cfg.MaxFanout = h.MaxFanout
	}
	if h.MaxPaths > 0 {
		cfg.MaxPaths = h.MaxPaths
	}
	if w := os.Getenv("GOSYM_MAXWALL"); w != "" {
		fmt.Sscan(w, &cfg.MaxWallS)
	}
	if w := os.Getenv("VERIF_WORKERS"); w != "" {
		fmt.Sscan(w, &cfg.Workers)
	}
	e := &Engine{prog: l.prog, fset: l.fset, entry: fn, cfg: cfg, stubs: l.stubs, initPkg: defaultInitPkgs()}
	for _, ip := range h.InitPkgs {
		e.initPkg[ip] = true
	}
	t1 := time.Now()
	e.Run()
	hr.Wall = time.Since(t1)
	hr.Res = e.res
	hr.Encoded = e.encoded
	return hr
}

func tierIndex(t string) int {
	if t == "thorough" {
		return 1
	}
	return 0
}

func main() {
	if len(os.Args) < 2 {
		fatal("usage: gosym check <PROP> quick|thorough | run ... | replay <file>")
	}
	debug.SetGCPercent(300)
	debug.SetMemoryLimit(40 << 30)
	if pf := os.Getenv("GOSYM_PROF"); pf != "" {
		f, _ := os.Create(pf)
		pprof.StartCPUProfile(f)
		defer pprof.StopCPUProfile()
	}
	switch os.Args[1] {
	case "check":
		fs := flag.NewFlagSet("check", flag.ExitOnError)
		only := fs.String("only", "", "run only this harness")
		trace := fs.Bool("trace", false, "")
		logDir := fs.String("smtlog", "", "directory for solver logs")
		noReplay := fs.Bool("noreplay", false, "")
		verbose := fs.Bool("v", false, "")
		fs.Parse(os.Args[2:])
		if fs.NArg() < 2 {
			fatal("usage: gosym check [flags] <PROP> quick|thorough")
		}
		rc := cmdCheck(fs.Arg(0), fs.Arg(1), *only, *trace, *logDir, *noReplay, *verbose)
		pprof.StopCPUProfile()
		os.Exit(rc)
	case "replay":
		if len(os.Args) < 3 {
			fatal("usage: gosym replay <cex.json>")
		}
		os.Exit(cmdReplay(os.Args[2]))
	default:
		fatal("unknown command %s", os.Args[1])
	}
}

func seedFromEnv() int64 {
	var s int64
	fmt.Sscan(os.Getenv("VERIF_SEED"), &s)
	return s
}

func repoHead() string {
	out, err := exec.Command("git", "-C", repoDir, "rev-parse", "--short", "HEAD").Output()
	if err != nil {
		return "?"
	}
	h := strings.TrimSpace(string(out))
	st, _ := exec.Command("git", "-C", repoDir, "status", "--porcelain", "--untracked-files=no").Output()
	if len(strings.TrimSpace(string(st))) > 0 {
		h += "+dirty"
	}
	return h
}

func cmdCheck(prop, tier, only string, trace bool, logDir string, noReplay, verbose bool) int {
	t0 := time.Now()
	spec, err := loadSpec(prop)
	if err != nil {
		fmt.Println("ERROR", err)
		return 2
	}
	known := loadKnown()
	ti := tierIndex(tier)
	var results []*HResult
	exit := 0
	inconclusive := false
	nviol := 0
	type sample map[string]any
	var samples []sample
	var totalStates, totalSteps, totalPaths, validated, totalQueries int64
	var solverTime time.Duration
	fnSet := map[string]bool{}
	var hsum []map[string]any
	for _, h := range spec.Harnesses {
		if only != "" && h.Name != only {
			continue
		}
		if len(h.Tiers) > 0 {
			ok := false
			for _, t := range h.Tiers {
				if t == tier {
					ok = true
				}
			}
			if !ok {
				continue
			}
		}
		hr := runHarness(h, ti, seedFromEnv(), trace, logDir)
		results = append(results, hr)
		if hr.Err != "" {
			fmt.Printf("INCONCLUSIVE property=%s harness=%s %s\n", prop, h.Name, hr.Err)
			inconclusive = true
			continue
		}
		r := &hr.Res
		fmt.Printf("harness %s: paths=%d complete=%d pruned=%d violating=%d forks=%d steps=%d queries=%d solver=%.1fs wall=%.1fs (load %.1fs)\n",
			h.Name, r.Paths, r.Complete, r.Pruned, r.Violating, r.Forks, r.Steps, r.Queries, r.SolverTime.Seconds(), hr.Wall.Seconds(), hr.LoadWall.Seconds())
		for _, m := range r.Inconclusive {
			fmt.Printf("INCONCLUSIVE property=%s harness=%s %s\n", prop, h.Name, m)
			inconclusive = true
		}
		for _, c := range h.Covers {
			if r.Cover[c] == 0 {
				fmt.Printf("INCONCLUSIVE property=%s harness=%s cover label %q not reached (vacuity guard)\n", prop, h.Name, c)
				inconclusive = true
			}
		}
		if r.Complete == 0 && len(r.Violations) == 0 {
			fmt.Printf("INCONCLUSIVE property=%s harness=%s no complete feasible path (vacuous)\n", prop, h.Name)
			inconclusive = true
		}
		// group violations by (kind, site, known-id)
		groups := map[string][]Violation{}
		var order []string
		for _, v := range r.Violations {
			kid := ""
			for _, k := range known {
				if k.Status == "fixed" || k.Property != prop || (k.Harness != "" && k.Harness != h.Name) {
					continue
				}
				if k.Kind != "" && k.Kind != v.Kind {
					continue
				}
				if k.Site != "" && !strings.Contains(v.Site+" "+v.Label+" "+v.Msg, k.Site) {
					continue
				}
				if k.Cover != "" {
					found := false
					for _, c := range v.Covers {
						if c == k.Cover {
							found = true
						}
					}
					if !found {
						continue
					}
				}
				kid = k.ID
				break
			}
			v.KnownID = kid
			key := v.Kind + "|" + v.Site + "|" + kid
			if _, ok := groups[key]; !ok {
				order = append(order, key)
			}
			groups[key] = append(groups[key], v)
		}
		sort.Strings(order)
		// native replay: witnesses (translator validation) and one violation per group
		var rp *Replayer
		if !noReplay && !h.NoReplay {
			rp, err = NewReplayer(h, ti)
			if err != nil {
				fmt.Printf("INCONCLUSIVE property=%s harness=%s replay build failed: %v\n", prop, h.Name, err)
				inconclusive = true
				rp = nil
			}
		}
		if rp != nil {
			for i, w := range r.Witnesses {
				out := rp.Run(w.Inputs)
				ok := out.Done && !out.Unrealisable && out.Panic == (len(w.Covers) > 0 && w.Covers[len(w.Covers)-1] == "<panic>")
				wc := w.Covers
				if out.Panic && len(wc) > 0 {
					wc = wc[:len(wc)-1]
				}
				if ok && strings.Join(out.Covers, ",") != strings.Join(wc, ",") {
					ok = false
				}
				if ok && !out.Panic && len(out.AssertFails) > 0 {
					// an assertion failing natively on a witness is a mismatch unless the engine
					// reported that very assertion as violable on a path with these covers
					// (witnesses are models of the path condition, not of the assertions)
					for _, l := range out.AssertFails {
						exp := false
						for _, v := range r.Violations {
							if v.Kind == "assert" && v.Label == l && subsetOf(v.Covers, w.Covers) {
								exp = true
								break
							}
						}
						if !exp {
							ok = false
						}
					}
				}
				if ok {
					validated++
				} else {
					os.MkdirAll(filepath.Join(evidenceDir(), "replays"), 0o755)
					wp := filepath.Join(evidenceDir(), "replays", fmt.Sprintf("%s-%s-witness-%d.json", prop, h.Name, i))
					wb, _ := json.MarshalIndent(map[string]any{"property": prop, "harness": h.Name, "tier": tier, "kind": "witness", "covers": w.Covers, "values": w.Inputs}, "", " ")
					os.WriteFile(wp, wb, 0o644)
					fmt.Printf("INCONCLUSIVE property=%s harness=%s witness %d does not replay natively (engine/stub mismatch): covers sym=%v native=%v panic=%v fails=%v unreal=%v %s\n",
						prop, h.Name, i, w.Covers, out.Covers, out.Panic, out.AssertFails, out.Unrealisable, out.Tail)
					inconclusive = true
				}
				if len(samples) < 6 {
					samples = append(samples, sample{"harness": h.Name, "kind": "witness", "covers": w.Covers, "inputs": trimVals(w.Inputs), "native_replay_ok": ok})
				}
			}
		} else {
			for _, w := range r.Witnesses {
				if len(samples) < 6 {
					samples = append(samples, sample{"harness": h.Name, "kind": "witness", "covers": w.Covers, "inputs": trimVals(w.Inputs)})
				}
			}
		}
		for _, key := range order {
			vs := groups[key]
			v := vs[0]
			if v.KnownID != "" {
				what := ""
				for _, k := range known {
					if k.ID == v.KnownID {
						what = k.What
					}
				}
				fmt.Printf("KNOWN-FINDING: property=%s %s [%s; %d paths]\n", prop, what, v.KnownID, len(vs))
				samples = append(samples, sample{"harness": h.Name, "kind": "known-finding", "id": v.KnownID, "site": v.Site, "inputs": trimVals(v.Inputs)})
				continue
			}
			nviol++
			os.MkdirAll(filepath.Join(evidenceDir(), "replays"), 0o755)
			path := filepath.Join(evidenceDir(), "replays", fmt.Sprintf("%s-%s-%d.json", prop, h.Name, nviol))
			cex := map[string]any{"property": prop, "harness": h.Name, "tier": tier, "kind": v.Kind, "label": v.Label, "site": v.Site,
				"msg": v.Msg, "stack": v.Stack, "covers": v.Covers, "prefix": v.Prefix, "values": v.Inputs, "repo_head": repoHead()}
			b, _ := json.MarshalIndent(cex, "", " ")
			os.WriteFile(path, b, 0o644)
			confirmed := "not-replayed"
			if rp != nil {
				out := rp.Run(v.Inputs)
				switch {
				case v.Kind == "panic" && out.Panic:
					confirmed = "confirmed"
				case v.Kind == "assert" && contains(out.AssertFails, v.Label):
					confirmed = "confirmed"
				default:
					confirmed = "unconfirmed"
				}
				if confirmed == "unconfirmed" {
					fmt.Printf("UNCONFIRMED property=%s harness=%s %s %s does not reproduce natively: panic=%v fails=%v unreal=%v %s\n",
						prop, h.Name, v.Kind, v.Site, out.Panic, out.AssertFails, out.Unrealisable, out.Tail)
					inconclusive = true
					continue
				}
			}
			fmt.Printf("VIOLATION property=%s replay=%s harness=%s %s %s (%s; %d paths) %s\n", prop, path, h.Name, v.Kind, v.Site, confirmed, len(vs), v.Msg)
			if verbose {
				for _, s := range v.Stack {
					fmt.Println("    at", s)
				}
			}
			samples = append(samples, sample{"harness": h.Name, "kind": "violation", "site": v.Site, "msg": v.Msg, "inputs": trimVals(v.Inputs), "replay": confirmed})
			exit = 1
		}
		if rp != nil {
			rp.Close()
		}
		totalStates += r.Forks + r.Paths
		totalSteps += r.Steps
		totalPaths += r.Paths
		totalQueries += r.Queries
		solverTime += r.SolverTime
		for f := range hr.Encoded {
			fnSet[f] = true
		}
		cov := map[string]int64{}
		for k, v := range r.Cover {
			cov[k] = v
		}
		hsum = append(hsum, map[string]any{"harness": h.Name, "decides": h.Decides, "bounds": h.Bounds[tier], "paths": r.Paths, "complete": r.Complete,
			"pruned": r.Pruned, "violating": r.Violating, "forks": r.Forks, "ssa_instructions": r.Steps, "queries": map[string]int64{"total": r.Queries, "feasibility": r.QueriesFeas, "obligation": r.QueriesOblig, "crosscheck": r.QueriesCross},
			"solver_time_s": round1(r.SolverTime.Seconds()), "wall_s": round1(hr.Wall.Seconds()), "cover": cov, "stubs": h.Stubs, "assumptions": h.Assumptions, "solver": firstNonEmpty(h.Solver, "z3"), "cross": h.Cross})
	}
	if len(results) == 0 {
		fmt.Println("ERROR no harness selected")
		return 2
	}
	// evidence
	var fns []string
	for f := range fnSet {
		if strings.Contains(f, "mixin") && !strings.Contains(f, "zzrt") {
			fns = append(fns, f)
		}
	}
	sort.Strings(fns)
	if len(samples) == 0 {
		samples = append(samples, sample{"note": "no witness extracted"})
	}
	var assumptions []string
	seenA := map[string]bool{}
	for _, h := range spec.Harnesses {
		for _, a := range h.Assumptions {
			if !seenA[a] {
				seenA[a] = true
				assumptions = append(assumptions, a)
			}
		}
		for _, s := range h.Stubs {
			a := "stub: " + s
			if !seenA[a] {
				seenA[a] = true
				assumptions = append(assumptions, a)
			}
		}
	}
	for _, o := range spec.Outside {
		assumptions = append(assumptions, "outside the claim: "+o)
	}
	ev := map[string]any{
		"property_id": prop, "tier": tier, "seed": seedFromEnv(), "level": "model_checking",
		"coverage": map[string]any{
			"states": totalStates, "transitions": totalSteps, "traces_validated_against_impl": validated,
			"samples": samples, "evaluations": totalPaths, "distinct_nontrivial": totalPaths,
			"rule":              "bounded symbolic execution of go/ssa: each evaluation is one distinct feasible control path (a set of inputs described by a path condition); states = fork points + path ends; transitions = SSA instructions interpreted; every assertion/panic site on every path is an SMT query that must be unsat",
			"functions_encoded": fns, "harnesses": hsum, "queries": totalQueries, "solver_time_s": round1(solverTime.Seconds()),
			"exhaustive": !inconclusive, "engine": "gosym (go/ssa x/tools v0.50.0 -> SMT-LIB2; z3 4.8.12 primary)", "repo_head": repoHead(),
		},
		"assumptions": assumptions, "wall_s": round1(time.Since(t0).Seconds()), "violations": nviol,
	}
	os.MkdirAll(evidenceDir(), 0o755)
	b, _ := json.MarshalIndent(ev, "", " ")
	os.WriteFile(filepath.Join(evidenceDir(), prop+".json"), b, 0o644)
	if exit == 1 {
		return 1
	}
	if inconclusive {
		fmt.Printf("RESULT property=%s tier=%s INCONCLUSIVE\n", prop, tier)
		return 2
	}
	fmt.Printf("RESULT property=%s tier=%s HOLDS within bounds: %d paths, %d queries, %d native replays ok, %.1fs\n", prop, tier, totalPaths, totalQueries, validated, time.Since(t0).Seconds())
	return 0
}

func firstNonEmpty(a, b string) string {
	if a != "" {
		return a
	}
	return b
}

func round1(f float64) float64 { return float64(int64(f*10+0.5)) / 10 }

func contains(xs []string, s string) bool {
	for _, x := range xs {
		if x == s {
			return true
		}
	}
	return false
}

func trimVals(vs []CexVal) []CexVal {
	out := make([]CexVal, 0, len(vs))
	for _, v := range vs {
		if len(v.Hex) > 400 {
			v.Hex = v.Hex[:400] + "…"
		}
		out = append(out, v)
		if len(out) >= 24 {
			break
		}
	}
	return out
}

func subsetOf(a, b []string) bool {
	for _, x := range a {
		if !contains(b, x) {
			return false
		}
	}
	return true
}

// evidenceDir is /verif/evidence; seeded-change trials (tools/seedtest.sh) redirect it.
func evidenceDir() string {
	if d := os.Getenv("GOSYM_EVIDENCE_DIR"); d != "" {
		return d
	}
	return filepath.Join(verifDir, "evidence")
}
