package main

import (
	"math/big"
	"strings"

	"golang.org/x/tools/go/ssa"
)

func registerMoreIntrinsics() {
	registerECIntrinsics()
	registerKVIntrinsics()
	m := map[string]intrinsicFn{
		"encoding/hex.EncodeToString": func(p *Path, _ *ssa.Function, a []Value) Value {
			bs := termsOf(a[0].(Slice))
			conc := true
			for _, b := range bs {
				if !b.IsConst() {
					conc = false
				}
			}
			src := Str{b: bs}
			if conc {
				r, _ := p.renderStr(Str{sym: &SymStr{kind: "hex", args: []Value{src}}})
				return r
			}
			return Str{sym: &SymStr{kind: "hex", args: []Value{src}}}
		},
		"(github.com/MixinNetwork/mixin/common.Integer).String": func(p *Path, _ *ssa.Function, a []Value) Value {
			// decimal text of an amount: opaque, injective in the amount (text formatting is outside the encoding)
			return Str{sym: &SymStr{kind: "amount", args: []Value{a[0].(Struct)[0]}}}
		},
		"strings.TrimSpace": func(p *Path, _ *ssa.Function, a []Value) Value {
			s, ok := a[0].(Str).concrete()
			if !ok {
				panic(p.unsupported("strings.TrimSpace of symbolic string"))
			}
			return p.strConst(strings.TrimSpace(s))
		},
		"strings.HasPrefix": func(p *Path, _ *ssa.Function, a []Value) Value {
			s, pre := a[0].(Str), a[1].(Str)
			if s.sym != nil || pre.sym != nil {
				panic(p.unsupported("strings.HasPrefix of structured string"))
			}
			if len(s.b) < len(pre.b) {
				return p.tb.False
			}
			return p.strEqual(Str{b: s.b[:len(pre.b)]}, pre)
		},
		"strings.Repeat": func(p *Path, _ *ssa.Function, a []Value) Value {
			s, ok := a[0].(Str).concrete()
			n := a[1].(*Term)
			if !ok || !n.IsConst() {
				panic(p.unsupported("strings.Repeat symbolic"))
			}
			return p.strConst(strings.Repeat(s, int(n.Signed().Int64())))
		},
		"github.com/MixinNetwork/mixin/common.NewIntegerFromString": func(p *Path, _ *ssa.Function, a []Value) Value {
			s, ok := a[0].(Str).concrete()
			if !ok {
				panic(p.unsupported("NewIntegerFromString of symbolic string (decimal text is outside the encoding)"))
			}
			r, good := new(big.Rat).SetString(s)
			if !good {
				p.goPanicf("explicit-panic", "NewIntegerFromString(%q): not a decimal", s)
			}
			if r.Sign() < 0 {
				p.goPanicf("explicit-panic", "NewIntegerFromString(%q): negative", s)
			}
			r.Mul(r, new(big.Rat).SetInt64(100000000))
			q := new(big.Int).Quo(r.Num(), r.Denom()) // floor for non-negative
			return Struct{Big{p.tb.IntBig(q)}}
		},
	}
	for k, v := range m {
		intrinsics[k] = v
	}
}
