package main

import (
	"crypto/sha256"
	"crypto/sha512"
	"go/types"
	"math/big"
	"strings"

	"golang.org/x/tools/go/ssa"
)

func registerMoreIntrinsics() {
	registerECIntrinsics()
	registerKVIntrinsics()
	registerThreadIntrinsics()
	m := map[string]intrinsicFn{
		"encoding/hex.EncodeToString": func(p *Path, _ *ssa.Function, a []Value) Value {
			bs := termsOf(a[0].(Slice))
			conc := true
			for _, b := range bs {
				if !b.IsConst() {
					conc = false
				}
			}
			src := Str{b: bs}
			if conc {
				r, _ := p.renderStr(Str{sym: &SymStr{kind: "hex", args: []Value{src}}})
				return r
			}
			return Str{sym: &SymStr{kind: "hex", args: []Value{src}}}
		},
		"(github.com/MixinNetwork/mixin/common.Integer).String": func(p *Path, _ *ssa.Function, a []Value) Value {
			// decimal text of an amount: opaque, injective in the amount (text formatting is outside the encoding)
			return Str{sym: &SymStr{kind: "amount", args: []Value{a[0].(Struct)[0]}}}
		},
		// wall clock: an arbitrary non-decreasing instant (nanoseconds since the Unix epoch, < 2^62)
		"time.Now": func(p *Path, _ *ssa.Function, a []Value) Value {
			return Struct{p.ic(0, 64), p.clockTick(), Ptr(nil)}
		},
		modPath + "/kernel/internal/clock.Now": func(p *Path, _ *ssa.Function, a []Value) Value {
			return Struct{p.ic(0, 64), p.clockTick(), Ptr(nil)}
		},
		modPath + "/kernel/internal/clock.NowUnixNano": func(p *Path, _ *ssa.Function, a []Value) Value {
			return p.clockTick()
		},
		"strings.Contains": func(p *Path, _ *ssa.Function, a []Value) Value {
			s, ok1 := a[0].(Str).concrete()
			sub, ok2 := a[1].(Str).concrete()
			if !ok1 || !ok2 {
				panic(p.unsupported("strings.Contains of symbolic strings"))
			}
			return p.tb.Bool(strings.Contains(s, sub))
		},
		// time.Time is modelled as {0, unix nanoseconds, nil}: all arithmetic on it is done here on the nanosecond field
		"(time.Time).Sub": func(p *Path, _ *ssa.Function, a []Value) Value {
			x, y := a[0].(Struct)[1].(*Term), a[1].(Struct)[1].(*Term)
			if x.sort.K == KInt {
				return p.tb.ISub(x, y)
			}
			return p.tb.Sub(x, y)
		},
		"(time.Time).Add": func(p *Path, _ *ssa.Function, a []Value) Value {
			x, d := a[0].(Struct)[1].(*Term), a[1].(*Term)
			if x.sort.K == KInt {
				return Struct{p.ic(0, 64), p.tb.IAdd(x, d), Ptr(nil)}
			}
			return Struct{p.ic(0, 64), p.tb.Add(x, d), Ptr(nil)}
		},
		"(time.Time).Before": func(p *Path, _ *ssa.Function, a []Value) Value {
			x, y := a[0].(Struct)[1].(*Term), a[1].(Struct)[1].(*Term)
			if x.sort.K == KInt {
				return p.tb.ILt(x, y)
			}
			return p.tb.Slt(x, y)
		},
		"(time.Time).After": func(p *Path, _ *ssa.Function, a []Value) Value {
			x, y := a[0].(Struct)[1].(*Term), a[1].(Struct)[1].(*Term)
			if x.sort.K == KInt {
				return p.tb.ILt(y, x)
			}
			return p.tb.Slt(y, x)
		},
		"(time.Duration).String": func(p *Path, _ *ssa.Function, a []Value) Value {
			return Str{sym: &SymStr{kind: "sprint", args: []Value{a[0]}}}
		},
		"(time.Time).UnixNano": func(p *Path, _ *ssa.Function, a []Value) Value {
			return a[0].(Struct)[1]
		},
		"(time.Time).Unix": func(p *Path, _ *ssa.Function, a []Value) Value {
			ns := a[0].(Struct)[1].(*Term)
			if ns.sort.K == KInt {
				return p.tb.IDiv(ns, p.tb.Int(1000000000))
			}
			return p.tb.Sdiv(ns, p.tb.BV(1000000000, 64))
		},
		"encoding/json.Marshal": func(p *Path, _ *ssa.Function, a []Value) Value {
			iv := a[0].(Iface)
			v := iv.v
			t := iv.t
			if pt, ok := t.(*types.Pointer); ok {
				ptr := v.(Ptr)
				if ptr == nil {
					panic(p.unsupported("json.Marshal(nil pointer)"))
				}
				v, t = copyVal(*ptr), pt.Elem()
			}
			return Tuple{Slice{jsonBlob{t, copyVal(v)}}, Iface{}}
		},
		"encoding/json.Unmarshal": func(p *Path, _ *ssa.Function, a []Value) Value {
			data := a[0].(Slice)
			dst := a[1].(Iface)
			if len(data) == 1 {
				if jb, ok := data[0].(jsonBlob); ok {
					pt, isP := dst.t.(*types.Pointer)
					if isP && types.Identical(pt.Elem(), jb.t) {
						storeVal(dst.v.(Ptr), copyVal(jb.v))
						return Iface{}
					}
				}
			}
			panic(p.unsupported("json.Unmarshal of bytes that are not a json.Marshal blob"))
		},
		"crypto/sha512.New": func(p *Path, _ *ssa.Function, a []Value) Value {
			return Iface{t: hasherType, v: &Opaque{kind: "hasher", data: &hasherState{name: "sha512", size: 64}}}
		},
		"crypto/sha256.New": func(p *Path, _ *ssa.Function, a []Value) Value {
			return Iface{t: hasherType, v: &Opaque{kind: "hasher", data: &hasherState{name: "sha256", size: 32}}}
		},
		"strings.TrimSpace": func(p *Path, _ *ssa.Function, a []Value) Value {
			s, ok := a[0].(Str).concrete()
			if !ok {
				panic(p.unsupported("strings.TrimSpace of symbolic string"))
			}
			return p.strConst(strings.TrimSpace(s))
		},
		"strings.HasPrefix": func(p *Path, _ *ssa.Function, a []Value) Value {
			s, pre := a[0].(Str), a[1].(Str)
			if s.sym != nil || pre.sym != nil {
				panic(p.unsupported("strings.HasPrefix of structured string"))
			}
			if len(s.b) < len(pre.b) {
				return p.tb.False
			}
			return p.strEqual(Str{b: s.b[:len(pre.b)]}, pre)
		},
		"strings.Repeat": func(p *Path, _ *ssa.Function, a []Value) Value {
			s, ok := a[0].(Str).concrete()
			n := a[1].(*Term)
			if !ok || !n.IsConst() {
				panic(p.unsupported("strings.Repeat symbolic"))
			}
			return p.strConst(strings.Repeat(s, int(n.Signed().Int64())))
		},
		"github.com/MixinNetwork/mixin/common.NewIntegerFromString": func(p *Path, _ *ssa.Function, a []Value) Value {
			if sy := a[0].(Str).sym; sy != nil && sy.kind == "amount" {
				// inverse pair: parse(format(x)) = x (decimal text itself is outside the encoding)
				return Struct{sy.args[0]}
			}
			s, ok := a[0].(Str).concrete()
			if !ok {
				panic(p.unsupported("NewIntegerFromString of symbolic string (decimal text is outside the encoding)"))
			}
			r, good := new(big.Rat).SetString(s)
			if !good {
				p.goPanicf("explicit-panic", "NewIntegerFromString(%q): not a decimal", s)
			}
			if r.Sign() < 0 {
				p.goPanicf("explicit-panic", "NewIntegerFromString(%q): negative", s)
			}
			r.Mul(r, new(big.Rat).SetInt64(100000000))
			q := new(big.Int).Quo(r.Num(), r.Denom()) // floor for non-negative
			return Struct{Big{p.tb.IntBig(q)}}
		},
	}
	for k, v := range m {
		intrinsics[k] = v
	}
}

// clockTick returns a fresh symbolic instant not earlier than the previous one.
func (p *Path) clockTick() *Term {
	tb := p.tb
	var t *Term
	if p.intW(64) {
		t = p.fresh("clk", SInt)
		p.assertPC(tb.And(tb.ILe(tb.Int(0), t), tb.ILt(t, tb.IntBig(pow2(62)))))
		if p.clock != nil {
			p.assertPC(tb.ILe(p.clock, t))
		}
	} else {
		t = p.fresh("clk", SBV(64))
		p.assertPC(tb.Ult(t, tb.BVBig(pow2(62), 64)))
		if p.clock != nil {
			p.assertPC(tb.Ule(p.clock, t))
		}
	}
	p.clock = t
	p.inputs = append(p.inputs, InputRec{Kind: "clock", Terms: []*Term{t}})
	return t
}

// streaming hash.Hash model: the digest is a function (real on concrete input,
// uninterpreted otherwise) of all bytes written since the last Reset.
type hasherState struct {
	name string
	size int
	buf  []*Term
}

var hasherType = types.NewPointer(types.NewNamed(types.NewTypeName(0, nil, "symhasher", nil), types.NewStruct(nil, nil), nil))

func (p *Path) hasherCall(op *Opaque, method string, args []Value) Value {
	h := op.data.(*hasherState)
	switch method {
	case "Write":
		bs := termsOf(args[0].(Slice))
		h.buf = append(h.buf, bs...)
		return Tuple{p.i64(uint64(len(bs))), Iface{}}
	case "Reset":
		h.buf = nil
		return nil
	case "Size":
		return p.i64(uint64(h.size))
	case "BlockSize":
		return p.i64(128)
	case "Sum":
		in := termsSlice(h.buf)
		var real func([]byte) []byte
		switch h.name {
		case "sha512":
			real = func(b []byte) []byte { s := sha512.Sum512(b); return s[:] }
		default:
			real = func(b []byte) []byte { s := sha256.Sum256(b); return s[:] }
		}
		d := p.hashUF(h.name, in, h.size, real)
		out := args[0].(Slice)
		for _, x := range d {
			out = append(out, x)
		}
		return out
	}
	panic(p.unsupported("hash.Hash method " + method))
}
