package main

func registerMoreIntrinsics() {
	registerECIntrinsics()
}
