package main

import (
	"crypto/sha256"
	"crypto/sha512"
	"go/types"
	"math/big"
	"strings"

	"golang.org/x/tools/go/ssa"
)

func registerMoreIntrinsics() {
	registerECIntrinsics()
	registerSyncMapIntrinsics()
	registerCacheIntrinsics()
	registerKVIntrinsics()
	registerThreadIntrinsics()
	m := map[string]intrinsicFn{
		"encoding/hex.EncodeToString": func(p *Path, _ *ssa.Function, a []Value) Value {
			bs := termsOf(a[0].(Slice))
			conc := true
			for _, b := range bs {
				if !b.IsConst() {
					conc = false
				}
			}
			src := Str{b: bs}
			if conc {
				r, _ := p.renderStr(Str{sym: &SymStr{kind: "hex", args: []Value{src}}})
				return r
			}
			return Str{sym: &SymStr{kind: "hex", args: []Value{src}}}
		},
		"(github.com/MixinNetwork/mixin/common.Integer).String": func(p *Path, _ *ssa.Function, a []Value) Value {
			// decimal text of an amount: opaque, injective in the amount (text formatting is outside the encoding)
			return Str{sym: &SymStr{kind: "amount", args: []Value{a[0].(Struct)[0]}}}
		},
		// wall clock: an arbitrary non-decreasing instant (nanoseconds since the Unix epoch, < 2^62)
		"time.Now": func(p *Path, _ *ssa.Function, a []Value) Value {
			return p.clockNow("std")
		},
		modPath + "/kernel/internal/clock.Now": func(p *Path, _ *ssa.Function, a []Value) Value {
			return p.clockNow("")
		},
		modPath + "/kernel/internal/clock.NowUnixNano": func(p *Path, _ *ssa.Function, a []Value) Value {
			return p.clockNano("nano")
		},
		modPath + "/zzrt.ClockNow": func(p *Path, _ *ssa.Function, a []Value) Value {
			return p.clockNow("")
		},
		modPath + "/zzrt.ClockNano": func(p *Path, _ *ssa.Function, a []Value) Value {
			return p.clockNano("nano")
		},
		"strings.Contains": func(p *Path, _ *ssa.Function, a []Value) Value {
			s, ok1 := a[0].(Str).concrete()
			sub, ok2 := a[1].(Str).concrete()
			if !ok1 || !ok2 {
				panic(p.unsupported("strings.Contains of symbolic strings"))
			}
			return p.tb.Bool(strings.Contains(s, sub))
		},
		// time.Time is modelled as {0, unix nanoseconds, nil}: all arithmetic on it is done here
		"(time.Time).Sub": func(p *Path, _ *ssa.Function, a []Value) Value {
			x, y := timeNs(a[0]), timeNs(a[1])
			if x.sort.K == KInt {
				return p.tb.ISub(x, y)
			}
			return p.tb.Sub(x, y)
		},
		"(time.Time).Add": func(p *Path, _ *ssa.Function, a []Value) Value {
			x, d := timeNs(a[0]), a[1].(*Term)
			if x.sort.K == KInt {
				return Struct{a[0].(Struct)[0], p.tb.IAdd(x, d), Ptr(nil)}
			}
			return Struct{a[0].(Struct)[0], p.tb.Add(x, d), Ptr(nil)}
		},
		"(time.Time).Before": func(p *Path, _ *ssa.Function, a []Value) Value {
			return p.timeLess(a[0], a[1])
		},
		"(time.Time).After": func(p *Path, _ *ssa.Function, a []Value) Value {
			return p.timeLess(a[1], a[0])
		},
		"(time.Duration).String": func(p *Path, _ *ssa.Function, a []Value) Value {
			return Str{sym: &SymStr{kind: "sprint", args: []Value{a[0]}}}
		},
		"(time.Time).UnixNano": func(p *Path, _ *ssa.Function, a []Value) Value {
			return timeNs(a[0])
		},
		"(time.Time).Unix": func(p *Path, _ *ssa.Function, a []Value) Value {
			return a[0].(Struct)[0]
		},
		"encoding/json.Marshal": func(p *Path, _ *ssa.Function, a []Value) Value {
			iv := a[0].(Iface)
			v := iv.v
			t := iv.t
			if pt, ok := t.(*types.Pointer); ok {
				ptr := v.(Ptr)
				if ptr == nil {
					panic(p.unsupported("json.Marshal(nil pointer)"))
				}
				v, t = copyVal(*ptr), pt.Elem()
			}
			return Tuple{Slice{jsonBlob{t, copyVal(v)}}, Iface{}}
		},
		"encoding/json.Unmarshal": func(p *Path, _ *ssa.Function, a []Value) Value {
			data := a[0].(Slice)
			dst := a[1].(Iface)
			if len(data) == 1 {
				if jb, ok := data[0].(jsonBlob); ok {
					pt, isP := dst.t.(*types.Pointer)
					if isP && types.Identical(pt.Elem(), jb.t) {
						storeVal(dst.v.(Ptr), copyVal(jb.v))
						return Iface{}
					}
				}
			}
			panic(p.unsupported("json.Unmarshal of bytes that are not a json.Marshal blob"))
		},
		"crypto/sha512.New": func(p *Path, _ *ssa.Function, a []Value) Value {
			return Iface{t: hasherType, v: &Opaque{kind: "hasher", data: &hasherState{name: "sha512", size: 64}}}
		},
		"crypto/sha256.New": func(p *Path, _ *ssa.Function, a []Value) Value {
			return Iface{t: hasherType, v: &Opaque{kind: "hasher", data: &hasherState{name: "sha256", size: 32}}}
		},
		"strings.TrimSpace": func(p *Path, _ *ssa.Function, a []Value) Value {
			s, ok := a[0].(Str).concrete()
			if !ok {
				panic(p.unsupported("strings.TrimSpace of symbolic string"))
			}
			return p.strConst(strings.TrimSpace(s))
		},
		"strings.HasPrefix": func(p *Path, _ *ssa.Function, a []Value) Value {
			s, pre := a[0].(Str), a[1].(Str)
			if s.sym != nil || pre.sym != nil {
				panic(p.unsupported("strings.HasPrefix of structured string"))
			}
			if len(s.b) < len(pre.b) {
				return p.tb.False
			}
			return p.strEqual(Str{b: s.b[:len(pre.b)]}, pre)
		},
		"strings.Repeat": func(p *Path, _ *ssa.Function, a []Value) Value {
			s, ok := a[0].(Str).concrete()
			n := a[1].(*Term)
			if !ok || !n.IsConst() {
				panic(p.unsupported("strings.Repeat symbolic"))
			}
			return p.strConst(strings.Repeat(s, int(n.Signed().Int64())))
		},
		"github.com/MixinNetwork/mixin/common.NewIntegerFromString": func(p *Path, _ *ssa.Function, a []Value) Value {
			if sy := a[0].(Str).sym; sy != nil && sy.kind == "amount" {
				// inverse pair: parse(format(x)) = x (decimal text itself is outside the encoding)
				return Struct{sy.args[0]}
			}
			s, ok := a[0].(Str).concrete()
			if !ok {
				panic(p.unsupported("NewIntegerFromString of symbolic string (decimal text is outside the encoding)"))
			}
			r, good := new(big.Rat).SetString(s)
			if !good {
				p.goPanicf("explicit-panic", "NewIntegerFromString(%q): not a decimal", s)
			}
			if r.Sign() < 0 {
				p.goPanicf("explicit-panic", "NewIntegerFromString(%q): negative", s)
			}
			r.Mul(r, new(big.Rat).SetInt64(100000000))
			q := new(big.Int).Quo(r.Num(), r.Denom()) // floor for non-negative
			return Struct{Big{p.tb.IntBig(q)}}
		},
	}
	for k, v := range m {
		intrinsics[k] = v
	}
}

// clockTick returns a fresh symbolic instant not earlier than the previous one.
// The clock: every reading is a fresh instant not earlier than the previous one (< 2^62 ns).
// clock.NowUnixNano() readings are nanosecond counts; time.Time readings are (seconds,
// nanosecond fraction) pairs so that Unix() needs no division; the two kinds are tied by
// sec*1e9+frac only when a path mixes them.
func (p *Path) clockLe(a, b *Term) *Term {
	if a.sort.K == KInt {
		return p.tb.ILe(a, b)
	}
	return p.tb.Ule(a, b)
}

func (p *Path) clockNsOf(sec, frac *Term) *Term {
	tb := p.tb
	if sec.sort.K == KInt {
		return tb.IAdd(tb.IMul(sec, tb.Int(1000000000)), frac)
	}
	return tb.Add(tb.Mul(sec, tb.BV(1000000000, 64)), frac)
}

func (p *Path) clockFresh(label string, bound uint64, shift uint) *Term {
	tb := p.tb
	var t *Term
	var lim *big.Int
	if shift > 0 {
		lim = pow2(int(shift))
	} else {
		lim = new(big.Int).SetUint64(bound)
	}
	if p.intW(64) {
		t = p.fresh("clk", SInt)
		p.assertPC(tb.And(tb.ILe(tb.Int(0), t), tb.ILt(t, tb.IntBig(lim))))
	} else {
		t = p.fresh("clk", SBV(64))
		p.assertPC(tb.Ult(t, tb.BVBig(lim, 64)))
	}
	p.inputs = append(p.inputs, InputRec{Kind: "clock", Label: label, Terms: []*Term{t}})
	return t
}

func (p *Path) clockTick() *Term { return p.clockNano("nano") }

func (p *Path) clockNano(label string) *Term {
	t := p.clockFresh(label, 0, 62)
	if p.clock != nil {
		p.assertPC(p.clockLe(p.clock, t))
	}
	p.clock = t
	return t
}

// clockNow returns a time.Time model {unix seconds, unix nanoseconds, nil}: one more tick of
// the nanosecond clock plus a seconds reading that is non-decreasing across readings. The two
// are deliberately NOT tied by sec*1e9 <= ns < (sec+1)*1e9: a 64-bit multiplication by 1e9
// stalls all three solvers (probed: unknown at 60 s), and no check relates Unix() to
// UnixNano() of the same reading. The environment is thereby over-approximated (sound for
// "holds"; a counterexample depending on the mismatch would fail its native replay).
func (p *Path) clockNow(label string) Value {
	tb := p.tb
	ns := p.clockNano(label + "ns")
	sec := p.clockFresh(label+"sec", 0, 33)
	if last, _ := p.extra["clocksec"].(*Term); last != nil {
		p.assertPC(p.clockLe(last, sec))
	}
	p.extra["clocksec"] = sec
	_ = tb
	return Struct{sec, ns, Ptr(nil)}
}

func timeNs(v Value) *Term { return v.(Struct)[1].(*Term) }

// streaming hash.Hash model: the digest is a function (real on concrete input,
// uninterpreted otherwise) of all bytes written since the last Reset.
type hasherState struct {
	name string
	size int
	buf  []*Term
}

var hasherType = types.NewPointer(types.NewNamed(types.NewTypeName(0, nil, "symhasher", nil), types.NewStruct(nil, nil), nil))

func (p *Path) hasherCall(op *Opaque, method string, args []Value) Value {
	h := op.data.(*hasherState)
	switch method {
	case "Write":
		bs := termsOf(args[0].(Slice))
		h.buf = append(h.buf, bs...)
		return Tuple{p.i64(uint64(len(bs))), Iface{}}
	case "Reset":
		h.buf = nil
		return nil
	case "Size":
		return p.i64(uint64(h.size))
	case "BlockSize":
		return p.i64(128)
	case "Sum":
		in := termsSlice(h.buf)
		var real func([]byte) []byte
		switch h.name {
		case "sha512":
			real = func(b []byte) []byte { s := sha512.Sum512(b); return s[:] }
		default:
			real = func(b []byte) []byte { s := sha256.Sum256(b); return s[:] }
		}
		d := p.hashUF(h.name, in, h.size, real)
		out := args[0].(Slice)
		for _, x := range d {
			out = append(out, x)
		}
		return out
	}
	panic(p.unsupported("hash.Hash method " + method))
}

func (p *Path) timeLess(x, y Value) *Term {
	a, b := timeNs(x), timeNs(y)
	if a.sort.K == KInt {
		return p.tb.ILt(a, b)
	}
	return p.tb.Slt(a, b)
}

// sync.Map: an association list per receiver (sequential semantics; under vr.Go threads
// every call is atomic, which is what sync.Map guarantees).
func (p *Path) syncMapOf(recv Value) *Map {
	a, _ := recv.(Ptr)
	if a == nil {
		p.goPanicf("nil-deref", "nil *sync.Map")
	}
	tab, _ := p.extra["syncmaps"].(map[*Value]*Map)
	if tab == nil {
		tab = map[*Value]*Map{}
		p.extra["syncmaps"] = tab
	}
	m := tab[(*Value)(a)]
	if m == nil {
		m = &Map{}
		tab[(*Value)(a)] = m
	}
	return m
}

func registerSyncMapIntrinsics() {
	intrinsics["(*sync.Map).Load"] = func(p *Path, _ *ssa.Function, a []Value) Value {
		m := p.syncMapOf(a[0])
		if i := p.mapFind(m, a[1]); i >= 0 {
			return Tuple{copyVal(m.vals[i]), p.tb.True}
		}
		return Tuple{Iface{}, p.tb.False}
	}
	intrinsics["(*sync.Map).Store"] = func(p *Path, _ *ssa.Function, a []Value) Value {
		p.mapSet(p.syncMapOf(a[0]), a[1], copyVal(a[2]))
		return nil
	}
	intrinsics["(*sync.Map).LoadOrStore"] = func(p *Path, _ *ssa.Function, a []Value) Value {
		m := p.syncMapOf(a[0])
		if i := p.mapFind(m, a[1]); i >= 0 {
			return Tuple{copyVal(m.vals[i]), p.tb.True}
		}
		p.mapSet(m, a[1], copyVal(a[2]))
		return Tuple{copyVal(a[2]), p.tb.False}
	}
	intrinsics["(*sync.Map).Delete"] = func(p *Path, _ *ssa.Function, a []Value) Value {
		p.mapDelete(p.syncMapOf(a[0]), a[1])
		return nil
	}
}

// ristretto.Cache[[]byte, any]: an association list keyed by byte content. Real ristretto
// may drop or evict any item at any time (admission policy, buffers), so a Get of a stored
// key forks into "served" and "missing".
type cacheModel struct {
	keys [][]*Term
	vals []Value
}

func registerCacheIntrinsics() {
	cacheOf := func(p *Path, v Value) *cacheModel {
		o := opaqueOf(p, v, "ristretto")
		return o.data.(*cacheModel)
	}
	cachePrefix = func(name string) intrinsicFn {
		const pfx = "github.com/dgraph-io/ristretto/v2."
		switch {
		case strings.HasPrefix(name, pfx+"NewCache["):
			return func(p *Path, _ *ssa.Function, a []Value) Value {
				return Tuple{opaquePtr("ristretto", &cacheModel{}), Iface{}}
			}
		case strings.HasPrefix(name, "(*"+pfx+"Cache[") && strings.HasSuffix(name, ").Get"):
			return func(p *Path, _ *ssa.Function, a []Value) Value {
				c := cacheOf(p, a[0])
				key := sliceTerms(a[1])
				for i := len(c.keys) - 1; i >= 0; i-- {
					if p.branch(p.keyEq(c.keys[i], key)) {
						if p.choose(0, 1) == 1 { // dropped / evicted
							p.inputs = append(p.inputs, InputRec{Kind: "choose", Label: "cache", Conc: 1})
							return Tuple{Iface{}, p.tb.False}
						}
						p.inputs = append(p.inputs, InputRec{Kind: "choose", Label: "cache", Conc: 0})
						return Tuple{copyVal(c.vals[i]), p.tb.True}
					}
				}
				return Tuple{Iface{}, p.tb.False}
			}
		case strings.HasPrefix(name, "(*"+pfx+"Cache[") && strings.HasSuffix(name, ").Set"):
			return func(p *Path, _ *ssa.Function, a []Value) Value {
				c := cacheOf(p, a[0])
				c.keys = append(c.keys, sliceTerms(a[1]))
				c.vals = append(c.vals, copyVal(a[2]))
				return p.tb.True
			}
		case strings.HasPrefix(name, "(*"+pfx+"Cache[") && (strings.HasSuffix(name, ").Wait") || strings.HasSuffix(name, ").Close")):
			return nop
		case strings.HasPrefix(name, "(*"+pfx+"Cache[") && strings.HasSuffix(name, ").Clear"):
			return func(p *Path, _ *ssa.Function, a []Value) Value {
				c := cacheOf(p, a[0])
				c.keys, c.vals = nil, nil
				return nil
			}
		}
		return nil
	}
}

var cachePrefix func(name string) intrinsicFn
