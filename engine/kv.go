package main

// Symbolic model of the Badger API surface used by storage/: a DB is an
// association list key-bytes -> value-bytes; a transaction sees a snapshot plus its
// own writes and installs them atomically on Commit; iterators walk the merged
// view in lexicographic key order. TTLs are ignored. Natively (replay) the same
// harness runs on a real in-memory Badger, which validates this model.

import (
	"fmt"
	"go/types"

	"golang.org/x/tools/go/ssa"
)

const bdg = "github.com/dgraph-io/badger/v4"

type kvEnt struct {
	key []*Term
	val Slice // bytes, or a single blob marker
}

type KVDB struct {
	entries []*kvEnt
	commits int
}

type kvWrite struct {
	key []*Term // key bytes at the time of the call (Badger indexes pending writes by a string copy)
	val Slice
	del bool
	// Badger keeps references to the caller's key and value slices until Commit ("must not
	// be modified until the end of the transaction"): the bytes that reach the database are
	// the slices' contents at commit time.
	keyRef Slice
	valRef Slice
}

// cur returns the write as Badger will see it now: the current contents of the referenced slices.
func (w *kvWrite) cur() (key []*Term, val Slice) {
	key, val = w.key, w.val
	if w.keyRef != nil {
		key = sliceTerms(w.keyRef)
	}
	if w.valRef != nil {
		val = cloneSlice(w.valRef)
	}
	return
}

type KVTxn struct {
	db     *KVDB
	base   []*kvEnt
	writes []*kvWrite
	update bool
	done   bool
}

type KVIter struct {
	ents    []*kvEnt
	cur     *kvEnt
	reverse bool
}

func opaquePtr(kind string, data any) Value {
	c := new(Value)
	*c = &Opaque{kind: kind, data: data}
	return Ptr(c)
}

func opaqueOf(p *Path, v Value, kind string) *Opaque {
	a, _ := v.(Ptr)
	if a == nil {
		p.goPanicf("nil-deref", "nil badger %s", kind)
	}
	o, ok := (*a).(*Opaque)
	if !ok || o.kind != kind {
		panic(p.unsupported(fmt.Sprintf("badger object of kind %s expected, got %T", kind, *a)))
	}
	return o
}

func (p *Path) keyEq(a, b []*Term) *Term {
	if len(a) != len(b) {
		return p.tb.False
	}
	if len(a) == 0 {
		return p.tb.True
	}
	// decide constant mismatches cheaply first
	for i := range a {
		if a[i].IsConst() && b[i].IsConst() && a[i] != b[i] {
			return p.tb.False
		}
	}
	return p.tb.Eq(p.tb.Concat(a...), p.tb.Concat(b...))
}

func (p *Path) hasPrefix(k, pre []*Term) *Term {
	if len(k) < len(pre) {
		return p.tb.False
	}
	return p.keyEq(k[:len(pre)], pre)
}

// view returns the transaction's merged view (unordered).
func (p *Path) kvView(t *KVTxn) []*kvEnt {
	out := append([]*kvEnt{}, t.base...)
	for _, w := range t.writes {
		wkey, wval := w.cur()
		idx := -1
		for i, e := range out {
			if p.branch(p.keyEq(e.key, wkey)) {
				idx = i
				break
			}
		}
		switch {
		case w.del && idx >= 0:
			out = append(out[:idx:idx], out[idx+1:]...)
		case w.del:
		case idx >= 0:
			out[idx] = &kvEnt{wkey, wval}
		default:
			out = append(out, &kvEnt{wkey, wval})
		}
	}
	return out
}

func (p *Path) kvGet(t *KVTxn, key []*Term) *kvEnt {
	for i := len(t.writes) - 1; i >= 0; i-- {
		w := t.writes[i]
		if p.branch(p.keyEq(w.key, key)) {
			wkey, wval := w.cur()
			if w.keyRef != nil && !p.branch(p.keyEq(wkey, key)) {
				break // the entry's key slice was modified after Set: Badger falls through to the database
			}
			if w.del {
				return nil
			}
			return &kvEnt{wkey, wval}
		}
	}
	for _, e := range t.base {
		if p.branch(p.keyEq(e.key, key)) {
			return e
		}
	}
	return nil
}

func (p *Path) kvCommit(t *KVTxn) {
	if t.done {
		return
	}
	t.done = true
	if !t.update {
		return
	}
	db := t.db
	ents := append([]*kvEnt{}, db.entries...)
	for _, w := range t.writes {
		wkey, wval := w.cur()
		idx := -1
		for i, e := range ents {
			if p.branch(p.keyEq(e.key, wkey)) {
				idx = i
				break
			}
		}
		switch {
		case w.del && idx >= 0:
			ents = append(ents[:idx:idx], ents[idx+1:]...)
		case w.del:
		case idx >= 0:
			ents[idx] = &kvEnt{wkey, wval}
		default:
			ents = append(ents, &kvEnt{wkey, wval})
		}
	}
	db.entries = ents
	db.commits++
}

func (p *Path) badgerErr(name string) Value {
	pkg := p.e.prog.ImportedPackage(bdg)
	if pkg == nil {
		panic(p.unsupported("badger package not loaded"))
	}
	g, ok := pkg.Members[name].(*ssa.Global)
	if !ok {
		panic(p.unsupported("badger." + name + " not found"))
	}
	return copyVal(*p.global(g))
}

func sliceTerms(v Value) []*Term {
	s, _ := v.(Slice)
	out := make([]*Term, len(s))
	for i, x := range s {
		out[i] = x.(*Term)
	}
	return out
}

func termsSlice(ts []*Term) Slice {
	if ts == nil {
		return Slice{}
	}
	out := make(Slice, len(ts))
	for i, t := range ts {
		out[i] = t
	}
	return out
}

// lexLess: a < b as a Bool term.
func (p *Path) lexLess(a, b []*Term) *Term {
	// big-endian byte strings: lexicographic order on the common prefix is the unsigned
	// order of the concatenations (adjacent extracts re-assemble into the original word)
	n := min(len(a), len(b))
	tb := p.tb
	// skip the equal constant prefix; a constant difference decides the order
	i := 0
	for i < n && a[i].IsConst() && b[i].IsConst() {
		if a[i] != b[i] {
			return tb.Bool(a[i].val.Cmp(b[i].val) < 0)
		}
		i++
	}
	if i == n {
		return tb.Bool(len(a) < len(b))
	}
	x, y := tb.Concat(a[i:n]...), tb.Concat(b[i:n]...)
	if len(a) < len(b) {
		return tb.Ule(x, y) // equal prefix: the shorter one sorts first
	}
	return tb.Ult(x, y)
}

func registerKVIntrinsics() {
	db := "(*" + bdg + ".DB)."
	tx := "(*" + bdg + ".Txn)."
	it := "(*" + bdg + ".Iterator)."
	im := "(*" + bdg + ".Item)."
	newTxn := func(p *Path, d *KVDB, update bool) *KVTxn {
		return &KVTxn{db: d, base: append([]*kvEnt{}, d.entries...), update: update}
	}
	callFn := func(p *Path, fn Value, arg Value) Iface {
		r := p.callFunction(fn, []Value{arg}, nil)
		iv, _ := r.(Iface)
		return iv
	}
	m := map[string]intrinsicFn{
		rtPkg + ".NewKV": func(p *Path, _ *ssa.Function, a []Value) Value {
			return opaquePtr("kvdb", &KVDB{})
		},
		db + "NewTransaction": func(p *Path, _ *ssa.Function, a []Value) Value {
			d := opaqueOf(p, a[0], "kvdb").data.(*KVDB)
			upd := a[1].(*Term)
			if !upd.IsConst() {
				panic(p.unsupported("NewTransaction with symbolic update flag"))
			}
			return opaquePtr("kvtxn", newTxn(p, d, upd.IsTrue()))
		},
		db + "Update": func(p *Path, _ *ssa.Function, a []Value) Value {
			d := opaqueOf(p, a[0], "kvdb").data.(*KVDB)
			t := newTxn(p, d, true)
			err := callFn(p, a[1], opaquePtr("kvtxn", t))
			if err.t != nil {
				t.done = true
				return err
			}
			p.kvCommit(t)
			return Iface{}
		},
		db + "View": func(p *Path, _ *ssa.Function, a []Value) Value {
			d := opaqueOf(p, a[0], "kvdb").data.(*KVDB)
			t := newTxn(p, d, false)
			err := callFn(p, a[1], opaquePtr("kvtxn", t))
			t.done = true
			return err
		},
		db + "Close": func(p *Path, _ *ssa.Function, a []Value) Value { return Iface{} },
		tx + "Get": func(p *Path, _ *ssa.Function, a []Value) Value {
			t := opaqueOf(p, a[0], "kvtxn").data.(*KVTxn)
			key := sliceTerms(a[1])
			if len(key) == 0 {
				return Tuple{Ptr(nil), p.badgerErr("ErrEmptyKey")}
			}
			e := p.kvGet(t, key)
			if e == nil {
				return Tuple{Ptr(nil), p.badgerErr("ErrKeyNotFound")}
			}
			return Tuple{opaquePtr("kvitem", e), Iface{}}
		},
		tx + "Set": func(p *Path, _ *ssa.Function, a []Value) Value {
			t := opaqueOf(p, a[0], "kvtxn").data.(*KVTxn)
			if !t.update {
				return p.badgerErr("ErrReadOnlyTxn")
			}
			key := sliceTerms(a[1])
			if len(key) == 0 {
				return p.badgerErr("ErrEmptyKey")
			}
			kr, _ := a[1].(Slice)
			vr, _ := a[2].(Slice)
			t.writes = append(t.writes, &kvWrite{key: key, val: cloneSlice(a[2]), keyRef: kr, valRef: vr})
			return Iface{}
		},
		tx + "SetEntry": func(p *Path, _ *ssa.Function, a []Value) Value {
			t := opaqueOf(p, a[0], "kvtxn").data.(*KVTxn)
			e := opaqueOf(p, a[1], "kventry").data.(*kvEnt)
			if !t.update {
				return p.badgerErr("ErrReadOnlyTxn")
			}
			t.writes = append(t.writes, &kvWrite{key: e.key, val: e.val})
			return Iface{}
		},
		tx + "Delete": func(p *Path, _ *ssa.Function, a []Value) Value {
			t := opaqueOf(p, a[0], "kvtxn").data.(*KVTxn)
			if !t.update {
				return p.badgerErr("ErrReadOnlyTxn")
			}
			kr, _ := a[1].(Slice)
			t.writes = append(t.writes, &kvWrite{key: sliceTerms(a[1]), del: true, keyRef: kr})
			return Iface{}
		},
		tx + "Commit": func(p *Path, _ *ssa.Function, a []Value) Value {
			t := opaqueOf(p, a[0], "kvtxn").data.(*KVTxn)
			if t.update && !t.done && p.extra["kvconflict"] != nil && len(t.writes) > 0 {
				// Badger SSI: a read-write transaction may fail with ErrConflict
				if p.choose(0, 1) == 1 {
					p.inputs = append(p.inputs, InputRec{Kind: "choose", Conc: 1})
					t.done = true
					return p.badgerErr("ErrConflict")
				}
				p.inputs = append(p.inputs, InputRec{Kind: "choose", Conc: 0})
			}
			p.kvCommit(t)
			return Iface{}
		},
		tx + "Discard": func(p *Path, _ *ssa.Function, a []Value) Value {
			if ap, _ := a[0].(Ptr); ap != nil {
				opaqueOf(p, a[0], "kvtxn").data.(*KVTxn).done = true
			}
			return nil
		},
		tx + "NewIterator": func(p *Path, fn *ssa.Function, a []Value) Value {
			t := opaqueOf(p, a[0], "kvtxn").data.(*KVTxn)
			opts := a[1].(Struct)
			st := fn.Signature.Params().At(0).Type().Underlying().(*types.Struct)
			var prefix []*Term
			reverse := false
			for i := 0; i < st.NumFields(); i++ {
				switch st.Field(i).Name() {
				case "Prefix":
					prefix = sliceTerms(opts[i])
				case "Reverse":
					rv := opts[i].(*Term)
					if !rv.IsConst() {
						panic(p.unsupported("iterator with symbolic Reverse"))
					}
					reverse = rv.IsTrue()
				}
			}
			var ents []*kvEnt
			for _, e := range p.kvView(t) {
				if len(prefix) == 0 || p.branch(p.hasPrefix(e.key, prefix)) {
					ents = append(ents, e)
				}
			}
			// entries are selected lazily (minimum / maximum of the not yet visited ones):
			// only the keys an iteration actually reaches are ever compared
			return opaquePtr("kviter", &KVIter{ents: ents, reverse: reverse})
		},
		it + "Rewind": func(p *Path, _ *ssa.Function, a []Value) Value {
			k := opaqueOf(p, a[0], "kviter").data.(*KVIter)
			p.iterSelect(k, nil, false)
			return nil
		},
		it + "Seek": func(p *Path, _ *ssa.Function, a []Value) Value {
			k := opaqueOf(p, a[0], "kviter").data.(*KVIter)
			key := sliceTerms(a[1])
			if len(key) == 0 {
				key = nil
			}
			p.iterSelect(k, key, true)
			return nil
		},
		it + "Valid": func(p *Path, _ *ssa.Function, a []Value) Value {
			k := opaqueOf(p, a[0], "kviter").data.(*KVIter)
			return p.tb.Bool(k.cur != nil)
		},
		it + "ValidForPrefix": func(p *Path, _ *ssa.Function, a []Value) Value {
			k := opaqueOf(p, a[0], "kviter").data.(*KVIter)
			if k.cur == nil {
				return p.tb.False
			}
			return p.hasPrefix(k.cur.key, sliceTerms(a[1]))
		},
		it + "Next": func(p *Path, _ *ssa.Function, a []Value) Value {
			k := opaqueOf(p, a[0], "kviter").data.(*KVIter)
			if k.cur != nil {
				p.iterSelect(k, k.cur.key, false)
			}
			return nil
		},
		it + "Item": func(p *Path, _ *ssa.Function, a []Value) Value {
			k := opaqueOf(p, a[0], "kviter").data.(*KVIter)
			if k.cur == nil {
				return Ptr(nil)
			}
			return opaquePtr("kvitem", k.cur)
		},
		it + "Close": nop,
		im + "Key": func(p *Path, _ *ssa.Function, a []Value) Value {
			return termsSlice(opaqueOf(p, a[0], "kvitem").data.(*kvEnt).key)
		},
		im + "KeyCopy": func(p *Path, _ *ssa.Function, a []Value) Value {
			return termsSlice(opaqueOf(p, a[0], "kvitem").data.(*kvEnt).key)
		},
		im + "ValueCopy": func(p *Path, _ *ssa.Function, a []Value) Value {
			e := opaqueOf(p, a[0], "kvitem").data.(*kvEnt)
			if dst, ok := a[1].(Slice); ok && dst != nil && cap(dst) >= len(e.val) && len(e.val) > 0 {
				// ValueCopy(dst) reuses dst's backing store when it is large enough
				copy(dst[:len(e.val)], e.val)
				return Tuple{dst[:len(e.val)], Iface{}}
			}
			return Tuple{cloneSlice(e.val), Iface{}}
		},
		im + "ValueSize": func(p *Path, _ *ssa.Function, a []Value) Value {
			return p.i64(uint64(len(opaqueOf(p, a[0], "kvitem").data.(*kvEnt).val)))
		},
		im + "Value": func(p *Path, _ *ssa.Function, a []Value) Value {
			e := opaqueOf(p, a[0], "kvitem").data.(*kvEnt)
			return callFn(p, a[1], cloneSlice(e.val))
		},
		bdg + ".NewEntry": func(p *Path, _ *ssa.Function, a []Value) Value {
			return opaquePtr("kventry", &kvEnt{key: sliceTerms(a[0]), val: cloneSlice(a[1])})
		},
		"(*" + bdg + ".Entry).WithTTL": func(p *Path, _ *ssa.Function, a []Value) Value { return a[0] },
		rtPkg + ".KVConflicts": func(p *Path, _ *ssa.Function, a []Value) Value {
			p.extra["kvconflict"] = true
			return nil
		},
	}
	for k, v := range m {
		intrinsics[k] = v
	}
}

func cloneSlice(v Value) Slice {
	s, _ := v.(Slice)
	out := make(Slice, len(s))
	copy(out, s)
	return out
}

// iterSelect positions the iterator on the first entry in iteration order that is
// at (inclusive) or after (exclusive) bound; bound == nil means the very first entry.
func (p *Path) iterSelect(k *KVIter, bound []*Term, inclusive bool) {
	var best *kvEnt
	for _, e := range k.ents {
		if bound != nil {
			// forward: need e.key >= bound (inclusive) or > bound; reverse: <= / <
			var outside *Term
			switch {
			case !k.reverse && inclusive:
				outside = p.lexLess(e.key, bound)
			case !k.reverse:
				outside = p.tb.Not(p.lexLess(bound, e.key))
			case inclusive:
				outside = p.lexLess(bound, e.key)
			default:
				outside = p.tb.Not(p.lexLess(e.key, bound))
			}
			if p.branch(outside) {
				continue
			}
		}
		if best == nil {
			best = e
			continue
		}
		var better *Term
		if k.reverse {
			better = p.lexLess(best.key, e.key)
		} else {
			better = p.lexLess(e.key, best.key)
		}
		if p.branch(better) {
			best = e
		}
	}
	k.cur = best
}
