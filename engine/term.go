package main

// Hash-consed term DAG with a rewriting simplifier, printed as SMT-LIB2.

import (
	"fmt"
	"math/big"
	"sort"
	"strconv"
	"strings"
)

type Kind uint8

const (
	KBool Kind = iota
	KBV
	KInt
)

type Sort struct {
	K Kind
	W int
}

var (
	SBool = Sort{KBool, 0}
	SInt  = Sort{KInt, 0}
)

func SBV(w int) Sort { return Sort{KBV, w} }

func (s Sort) String() string {
	switch s.K {
	case KBool:
		return "Bool"
	case KInt:
		return "Int"
	}
	return "(_ BitVec " + strconv.Itoa(s.W) + ")"
}

type Op uint8

const (
	OConst Op = iota
	OVar
	ONot
	OAnd
	OOr
	OIte
	OEq
	OBvAdd
	OBvSub
	OBvMul
	OBvUdiv
	OBvUrem
	OBvSdiv
	OBvSrem
	OBvAnd
	OBvOr
	OBvXor
	OBvNot
	OBvNeg
	OBvShl
	OBvLshr
	OBvAshr
	OConcat
	OExtract
	OSext
	OBvUlt
	OBvUle
	OBvSlt
	OBvSle
	OIAdd
	OISub
	OIMul
	OIDiv
	OIMod
	OINeg
	OILt
	OILe
	OBv2Int
	OInt2Bv
	OApp
)

var opNames = map[Op]string{
	ONot: "not", OAnd: "and", OOr: "or", OIte: "ite", OEq: "=",
	OBvAdd: "bvadd", OBvSub: "bvsub", OBvMul: "bvmul", OBvUdiv: "bvudiv", OBvUrem: "bvurem",
	OBvSdiv: "bvsdiv", OBvSrem: "bvsrem", OBvAnd: "bvand", OBvOr: "bvor", OBvXor: "bvxor",
	OBvNot: "bvnot", OBvNeg: "bvneg", OBvShl: "bvshl", OBvLshr: "bvlshr", OBvAshr: "bvashr",
	OConcat: "concat", OBvUlt: "bvult", OBvUle: "bvule", OBvSlt: "bvslt", OBvSle: "bvsle",
	OIAdd: "+", OISub: "-", OIMul: "*", OIDiv: "div", OIMod: "mod", OINeg: "-", OILt: "<", OILe: "<=",
	OBv2Int: "bv2nat",
}

type Term struct {
	op     Op
	sort   Sort
	args   []*Term
	val    *big.Int // OConst (Bool: 0/1)
	name   string   // OVar, OApp
	hi, lo int      // OExtract; OSext: hi = extra bits; OInt2Bv: hi = width
	id     int
}

func (t *Term) IsConst() bool { return t.op == OConst }
func (t *Term) IsTrue() bool  { return t.op == OConst && t.sort.K == KBool && t.val.Sign() != 0 }
func (t *Term) IsFalse() bool { return t.op == OConst && t.sort.K == KBool && t.val.Sign() == 0 }

// TB is a term builder (one per worker; not safe for concurrent use).
type TB struct {
	tab    map[string]*Term
	nextID int
	True   *Term
	False  *Term
	ufs    map[string]ufSig
	kb     []byte
	small  map[int]*[256]*Term
}

type ufSig struct {
	args []Sort
	res  Sort
	body string // non-empty: a defined (interpreted) function over parameters a0..an-1
}

func NewTB() *TB {
	b := &TB{tab: map[string]*Term{}, ufs: map[string]ufSig{}}
	b.True = b.mk(&Term{op: OConst, sort: SBool, val: big.NewInt(1)})
	b.False = b.mk(&Term{op: OConst, sort: SBool, val: big.NewInt(0)})
	return b
}

func (b *TB) mk(t *Term) *Term {
	k := b.kb[:0]
	k = append(k, byte(t.op), byte(t.sort.K))
	k = strconv.AppendInt(k, int64(t.sort.W), 10)
	k = append(k, '|')
	switch t.op {
	case OConst:
		k = t.val.Append(k, 16)
	case OVar, OApp:
		k = append(k, t.name...)
	case OExtract, OSext, OInt2Bv:
		k = strconv.AppendInt(k, int64(t.hi), 10)
		k = append(k, ',')
		k = strconv.AppendInt(k, int64(t.lo), 10)
	}
	for _, a := range t.args {
		k = append(k, ' ')
		k = strconv.AppendInt(k, int64(a.id), 10)
	}
	b.kb = k
	if e, ok := b.tab[string(k)]; ok {
		return e
	}
	b.nextID++
	t.id = b.nextID
	b.tab[string(k)] = t
	return t
}

// ---------- constants / variables

func (b *TB) Bool(v bool) *Term {
	if v {
		return b.True
	}
	return b.False
}

var bigOne = big.NewInt(1)

func maskW(w int) *big.Int {
	m := new(big.Int).Lsh(bigOne, uint(w))
	return m.Sub(m, bigOne)
}

func (b *TB) BVBig(v *big.Int, w int) *Term {
	if v.Sign() >= 0 && v.BitLen() <= w {
		if w <= 64 && v.BitLen() <= 8 {
			return b.smallBV(v.Uint64(), w)
		}
		return b.mk(&Term{op: OConst, sort: SBV(w), val: v})
	}
	var x *big.Int
	if v.Sign() < 0 {
		m := new(big.Int).Lsh(bigOne, uint(w))
		x = new(big.Int).Mod(v, m)
	} else {
		x = new(big.Int).And(v, maskW(w))
	}
	return b.mk(&Term{op: OConst, sort: SBV(w), val: x})
}

func (b *TB) smallBV(v uint64, w int) *Term {
	if b.small == nil {
		b.small = map[int]*[256]*Term{}
	}
	tbl := b.small[w]
	if tbl == nil {
		tbl = new([256]*Term)
		b.small[w] = tbl
	}
	if t := tbl[v]; t != nil {
		return t
	}
	t := b.mk(&Term{op: OConst, sort: SBV(w), val: new(big.Int).SetUint64(v)})
	tbl[v] = t
	return t
}

func (b *TB) BV(v uint64, w int) *Term {
	if v < 256 && w <= 64 && (w >= 8 || v < 1<<uint(w)) {
		return b.smallBV(v, w)
	}
	return b.BVBig(new(big.Int).SetUint64(v), w)
}
func (b *TB) BVI(v int64, w int) *Term { return b.BVBig(big.NewInt(v), w) }
func (b *TB) IntBig(v *big.Int) *Term {
	return b.mk(&Term{op: OConst, sort: SInt, val: new(big.Int).Set(v)})
}
func (b *TB) Int(v int64) *Term { return b.IntBig(big.NewInt(v)) }

func (b *TB) Var(name string, s Sort) *Term {
	return b.mk(&Term{op: OVar, sort: s, name: name})
}

// signed value of a BV constant
func (t *Term) Signed() *big.Int {
	v := new(big.Int).Set(t.val)
	if t.sort.K == KBV && t.sort.W > 0 && v.Bit(t.sort.W-1) == 1 {
		v.Sub(v, new(big.Int).Lsh(bigOne, uint(t.sort.W)))
	}
	return v
}

func (t *Term) Uint64() uint64 { return t.val.Uint64() }

// ---------- boolean

func (b *TB) Not(x *Term) *Term {
	switch {
	case x.IsTrue():
		return b.False
	case x.IsFalse():
		return b.True
	case x.op == ONot:
		return x.args[0]
	case x.op == OBvUlt:
		return b.raw(OBvUle, SBool, x.args[1], x.args[0])
	case x.op == OBvUle:
		return b.raw(OBvUlt, SBool, x.args[1], x.args[0])
	case x.op == OBvSlt:
		return b.raw(OBvSle, SBool, x.args[1], x.args[0])
	case x.op == OBvSle:
		return b.raw(OBvSlt, SBool, x.args[1], x.args[0])
	case x.op == OILt:
		return b.raw(OILe, SBool, x.args[1], x.args[0])
	case x.op == OILe:
		return b.raw(OILt, SBool, x.args[1], x.args[0])
	}
	return b.raw(ONot, SBool, x)
}

func (b *TB) raw(op Op, s Sort, args ...*Term) *Term {
	return b.mk(&Term{op: op, sort: s, args: args})
}

func (b *TB) nary(op Op, xs []*Term) *Term {
	// flatten, drop neutral, short-circuit, dedupe
	neutral, absorb := b.True, b.False
	if op == OOr {
		neutral, absorb = b.False, b.True
	}
	var out []*Term
	seen := map[int]bool{}
	var add func(t *Term) bool
	add = func(t *Term) bool {
		if t == absorb {
			return false
		}
		if t == neutral {
			return true
		}
		if t.op == op {
			for _, a := range t.args {
				if !add(a) {
					return false
				}
			}
			return true
		}
		if seen[t.id] {
			return true
		}
		seen[t.id] = true
		out = append(out, t)
		return true
	}
	for _, x := range xs {
		if !add(x) {
			return absorb
		}
	}
	for _, t := range out {
		if t.op == ONot && seen[t.args[0].id] {
			return absorb
		}
	}
	switch len(out) {
	case 0:
		return neutral
	case 1:
		return out[0]
	}
	return b.mk(&Term{op: op, sort: SBool, args: out})
}

func (b *TB) And(xs ...*Term) *Term { return b.nary(OAnd, xs) }
func (b *TB) Or(xs ...*Term) *Term  { return b.nary(OOr, xs) }
func (b *TB) Implies(a, c *Term) *Term {
	return b.Or(b.Not(a), c)
}

func (b *TB) Ite(c, x, y *Term) *Term {
	if c.IsTrue() {
		return x
	}
	if c.IsFalse() {
		return y
	}
	if x == y {
		return x
	}
	if x.sort.K == KBool {
		if x.IsTrue() && y.IsFalse() {
			return c
		}
		if x.IsFalse() && y.IsTrue() {
			return b.Not(c)
		}
		if x.IsTrue() {
			return b.Or(c, y)
		}
		if x.IsFalse() {
			return b.And(b.Not(c), y)
		}
		if y.IsTrue() {
			return b.Or(b.Not(c), x)
		}
		if y.IsFalse() {
			return b.And(c, x)
		}
	}
	if c.op == ONot {
		return b.Ite(c.args[0], y, x)
	}
	return b.raw(OIte, x.sort, c, x, y)
}

func (b *TB) Eq(x, y *Term) *Term {
	if x == y {
		return b.True
	}
	if x.sort != y.sort {
		panic(fmt.Sprintf("Eq sort mismatch %v %v", x.sort, y.sort))
	}
	if x.IsConst() && y.IsConst() {
		return b.Bool(x.val.Cmp(y.val) == 0)
	}
	if x.IsConst() {
		x, y = y, x
	}
	if x.sort.K == KBool {
		if y.IsTrue() {
			return x
		}
		if y.IsFalse() {
			return b.Not(x)
		}
	}
	if y.IsConst() && x.op == OIte && !(x.args[1].IsConst() && x.args[2].IsConst()) && constTree(x, 12) {
		return b.mapTree(x, func(l *Term) *Term { return b.Eq(l, y) })
	}
	if y.IsConst() && x.op == OIte && x.args[1].IsConst() && x.args[2].IsConst() {
		e1 := x.args[1].val.Cmp(y.val) == 0
		e2 := x.args[2].val.Cmp(y.val) == 0
		switch {
		case e1 && e2:
			return b.True
		case e1:
			return x.args[0]
		case e2:
			return b.Not(x.args[0])
		default:
			return b.False
		}
	}
	// (concat 0.. a) == const  -> a == extract const, when high const part matches
	if y.IsConst() && x.op == OConcat {
		off := x.sort.W
		var conj []*Term
		for _, p := range x.args {
			off -= p.sort.W
			conj = append(conj, b.Eq(p, b.Extract(y, off+p.sort.W-1, off)))
		}
		return b.And(conj...)
	}
	if x.id > y.id {
		x, y = y, x
	}
	return b.raw(OEq, SBool, x, y)
}

func (b *TB) Ne(x, y *Term) *Term { return b.Not(b.Eq(x, y)) }

// ---------- bit-vectors

// constTree: an ite tree whose leaves are all constants (depth-limited).
func constTree(t *Term, d int) bool {
	if t.IsConst() {
		return true
	}
	if t.op != OIte || d == 0 {
		return false
	}
	return constTree(t.args[1], d-1) && constTree(t.args[2], d-1)
}

// mapTree applies f to the leaves of a const tree.
func (b *TB) mapTree(t *Term, f func(*Term) *Term) *Term {
	if t.op == OIte {
		return b.Ite(t.args[0], b.mapTree(t.args[1], f), b.mapTree(t.args[2], f))
	}
	return f(t)
}

func (b *TB) bvBin(op Op, x, y *Term) *Term {
	if x.sort != y.sort || x.sort.K != KBV {
		panic(fmt.Sprintf("bv op %s sort mismatch %v %v", opNames[op], x.sort, y.sort))
	}
	w := x.sort.W
	if x.op == OIte && y.IsConst() && constTree(x, 12) {
		return b.mapTree(x, func(l *Term) *Term { return b.bvBin(op, l, y) })
	}
	if y.op == OIte && x.IsConst() && constTree(y, 12) {
		return b.mapTree(y, func(l *Term) *Term { return b.bvBin(op, x, l) })
	}
	if x.IsConst() && y.IsConst() {
		if r := foldBV(op, x, y, w); r != nil {
			return b.BVBig(r, w)
		}
	}
	zero := func(t *Term) bool { return t.IsConst() && t.val.Sign() == 0 }
	ones := func(t *Term) bool { return t.IsConst() && t.val.Cmp(maskW(w)) == 0 }
	switch op {
	case OBvAdd:
		if zero(x) {
			return y
		}
		if zero(y) {
			return x
		}
		if x.IsConst() {
			x, y = y, x
		}
		if y.IsConst() && x.op == OBvAdd && x.args[1].IsConst() {
			return b.bvBin(OBvAdd, x.args[0], b.bvBin(OBvAdd, x.args[1], y))
		}
	case OBvSub:
		if zero(y) {
			return x
		}
		if x == y {
			return b.BV(0, w)
		}
		if y.IsConst() {
			return b.bvBin(OBvAdd, x, b.BVBig(new(big.Int).Neg(y.val), w))
		}
	case OBvMul:
		if zero(x) || zero(y) {
			return b.BV(0, w)
		}
		if x.IsConst() && x.val.Cmp(bigOne) == 0 {
			return y
		}
		if y.IsConst() && y.val.Cmp(bigOne) == 0 {
			return x
		}
		if x.IsConst() {
			x, y = y, x
		}
	case OBvAnd:
		if zero(x) || zero(y) {
			return b.BV(0, w)
		}
		if ones(x) {
			return y
		}
		if ones(y) {
			return x
		}
		if x == y {
			return x
		}
		if x.IsConst() {
			x, y = y, x
		}
		if y.IsConst() {
			// low mask 2^k-1
			k := y.val.BitLen()
			if new(big.Int).Add(y.val, bigOne).BitLen() == k+1 && y.val.Cmp(maskW(k)) == 0 {
				return b.Concat(b.BV(0, w-k), b.Extract(x, k-1, 0))
			}
			if r := b.segmentwise(OBvAnd, x, y); r != nil {
				return r
			}
		}
	case OBvOr:
		if zero(x) {
			return y
		}
		if zero(y) {
			return x
		}
		if ones(x) || ones(y) {
			return b.BVBig(maskW(w), w)
		}
		if x == y {
			return x
		}
		if r := b.segmentwise(OBvOr, x, y); r != nil {
			return r
		}
	case OBvXor:
		if zero(x) {
			return y
		}
		if zero(y) {
			return x
		}
		if x == y {
			return b.BV(0, w)
		}
	case OBvShl, OBvLshr, OBvAshr:
		if zero(y) {
			return x
		}
		if zero(x) {
			return x
		}
		if y.IsConst() {
			if !y.val.IsUint64() || y.val.Uint64() >= uint64(w) {
				if op == OBvAshr {
					return b.raw(op, x.sort, x, b.BV(uint64(w-1), w))
				}
				return b.BV(0, w)
			}
			c := int(y.val.Uint64())
			switch op {
			case OBvShl:
				return b.Concat(b.Extract(x, w-1-c, 0), b.BV(0, c))
			case OBvLshr:
				return b.Concat(b.BV(0, c), b.Extract(x, w-1, c))
			case OBvAshr:
				return b.Sext(b.Extract(x, w-1, c), c)
			}
		}
	case OBvUdiv:
		if y.IsConst() && y.val.Cmp(bigOne) == 0 {
			return x
		}
	case OBvUrem:
		if y.IsConst() && y.val.Cmp(bigOne) == 0 {
			return b.BV(0, w)
		}
	}
	return b.raw(op, x.sort, x, y)
}

func foldBV(op Op, x, y *Term, w int) *big.Int {
	a, c := x.val, y.val
	r := new(big.Int)
	switch op {
	case OBvAdd:
		return r.Add(a, c)
	case OBvSub:
		return r.Sub(a, c)
	case OBvMul:
		return r.Mul(a, c)
	case OBvAnd:
		return r.And(a, c)
	case OBvOr:
		return r.Or(a, c)
	case OBvXor:
		return r.Xor(a, c)
	case OBvUdiv:
		if c.Sign() == 0 {
			return maskW(w)
		}
		return r.Quo(a, c)
	case OBvUrem:
		if c.Sign() == 0 {
			return r.Set(a)
		}
		return r.Rem(a, c)
	case OBvSdiv:
		if c.Sign() == 0 {
			return nil
		}
		return r.Quo(x.Signed(), y.Signed())
	case OBvSrem:
		if c.Sign() == 0 {
			return nil
		}
		return r.Rem(x.Signed(), y.Signed())
	case OBvShl:
		if !c.IsUint64() || c.Uint64() >= uint64(w) {
			return r
		}
		return r.Lsh(a, uint(c.Uint64()))
	case OBvLshr:
		if !c.IsUint64() || c.Uint64() >= uint64(w) {
			return r
		}
		return r.Rsh(a, uint(c.Uint64()))
	case OBvAshr:
		s := uint(w - 1)
		if c.IsUint64() && c.Uint64() < uint64(w) {
			s = uint(c.Uint64())
		}
		return r.Rsh(x.Signed(), s)
	}
	return nil
}

func (b *TB) Add(x, y *Term) *Term  { return b.bvBin(OBvAdd, x, y) }
func (b *TB) Sub(x, y *Term) *Term  { return b.bvBin(OBvSub, x, y) }
func (b *TB) Mul(x, y *Term) *Term  { return b.bvBin(OBvMul, x, y) }
func (b *TB) Udiv(x, y *Term) *Term { return b.bvBin(OBvUdiv, x, y) }
func (b *TB) Urem(x, y *Term) *Term { return b.bvBin(OBvUrem, x, y) }
func (b *TB) Sdiv(x, y *Term) *Term { return b.bvBin(OBvSdiv, x, y) }
func (b *TB) Srem(x, y *Term) *Term { return b.bvBin(OBvSrem, x, y) }
func (b *TB) BvAnd(x, y *Term) *Term { return b.bvBin(OBvAnd, x, y) }
func (b *TB) BvOr(x, y *Term) *Term  { return b.bvBin(OBvOr, x, y) }
func (b *TB) BvXor(x, y *Term) *Term { return b.bvBin(OBvXor, x, y) }
func (b *TB) Shl(x, y *Term) *Term   { return b.bvBin(OBvShl, x, y) }
func (b *TB) Lshr(x, y *Term) *Term  { return b.bvBin(OBvLshr, x, y) }
func (b *TB) Ashr(x, y *Term) *Term  { return b.bvBin(OBvAshr, x, y) }

func (b *TB) BvNot(x *Term) *Term {
	if x.IsConst() {
		return b.BVBig(new(big.Int).Xor(x.val, maskW(x.sort.W)), x.sort.W)
	}
	if x.op == OBvNot {
		return x.args[0]
	}
	return b.raw(OBvNot, x.sort, x)
}

func (b *TB) BvNeg(x *Term) *Term {
	if x.IsConst() {
		return b.BVBig(new(big.Int).Neg(x.val), x.sort.W)
	}
	return b.raw(OBvNeg, x.sort, x)
}

// parts returns the concat parts (msb first) of t.
func parts(t *Term) []*Term {
	if t.op == OConcat {
		return t.args
	}
	return []*Term{t}
}

// segmentwise applies a bitwise op over aligned segments when at least one
// segment of either operand is a constant (so the result gets simpler).
func (b *TB) segmentwise(op Op, x, y *Term) *Term {
	px, py := parts(x), parts(y)
	if len(px) == 1 && len(py) == 1 {
		return nil
	}
	hasConst := false
	for _, p := range px {
		if p.IsConst() {
			hasConst = true
		}
	}
	for _, p := range py {
		if p.IsConst() {
			hasConst = true
		}
	}
	if !hasConst && !(x.IsConst() || y.IsConst()) {
		return nil
	}
	w := x.sort.W
	cuts := map[int]bool{0: true, w: true}
	for _, ps := range [][]*Term{px, py} {
		off := w
		for _, p := range ps {
			off -= p.sort.W
			cuts[off] = true
		}
	}
	// split constants at byte boundaries of zero / all-ones runs is not attempted
	var cs []int
	for c := range cuts {
		cs = append(cs, c)
	}
	sort.Ints(cs)
	var out []*Term
	useful := false
	for i := len(cs) - 1; i > 0; i-- {
		hi, lo := cs[i]-1, cs[i-1]
		a := b.Extract(x, hi, lo)
		c := b.Extract(y, hi, lo)
		if a.IsConst() || c.IsConst() {
			useful = true
		}
		out = append(out, b.raw2(op, a, c))
	}
	if !useful {
		return nil
	}
	return b.Concat(out...)
}

// raw2: bitwise op on equal-width pieces without segmentwise recursion blowup
func (b *TB) raw2(op Op, x, y *Term) *Term {
	if len(parts(x)) == 1 && len(parts(y)) == 1 {
		return b.bvBin(op, x, y)
	}
	return b.bvBin(op, x, y)
}

func (b *TB) Concat(xs ...*Term) *Term {
	var out []*Term
	var add func(t *Term)
	add = func(t *Term) {
		if t.sort.K != KBV {
			panic("concat of non-bv")
		}
		if t.sort.W == 0 {
			return
		}
		if t.op == OConcat {
			for _, a := range t.args {
				add(a)
			}
			return
		}
		if n := len(out); n > 0 {
			p := out[n-1]
			if p.IsConst() && t.IsConst() {
				v := new(big.Int).Lsh(p.val, uint(t.sort.W))
				v.Or(v, t.val)
				out[n-1] = b.BVBig(v, p.sort.W+t.sort.W)
				return
			}
			if p.op == OExtract && t.op == OExtract && p.args[0] == t.args[0] && p.lo == t.hi+1 {
				out[n-1] = b.Extract(p.args[0], p.hi, t.lo)
				return
			}
		}
		out = append(out, t)
	}
	for _, x := range xs {
		add(x)
	}
	if len(out) == 0 {
		return b.mk(&Term{op: OConst, sort: SBV(0), val: new(big.Int)})
	}
	if len(out) == 1 {
		return out[0]
	}
	w := 0
	for _, o := range out {
		w += o.sort.W
	}
	return b.mk(&Term{op: OConcat, sort: SBV(w), args: out})
}

func (b *TB) Extract(x *Term, hi, lo int) *Term {
	w := x.sort.W
	if x.sort.K != KBV || hi >= w || lo < 0 || hi < lo-1 {
		panic(fmt.Sprintf("bad extract [%d:%d] of width %d", hi, lo, w))
	}
	if hi == lo-1 {
		return b.Concat()
	}
	if lo == 0 && hi == w-1 {
		return x
	}
	switch x.op {
	case OConst:
		v := new(big.Int).Rsh(x.val, uint(lo))
		return b.BVBig(v, hi-lo+1)
	case OExtract:
		return b.Extract(x.args[0], x.lo+hi, x.lo+lo)
	case OConcat:
		off := w
		var out []*Term
		for _, p := range x.args {
			pl := off - p.sort.W // p occupies [off-1 : pl]
			ph := off - 1
			off = pl
			if ph < lo || pl > hi {
				continue
			}
			h, l := min(hi, ph), max(lo, pl)
			out = append(out, b.Extract(p, h-pl, l-pl))
		}
		return b.Concat(out...)
	case OBvAnd, OBvOr, OBvXor:
		return b.bvBin(x.op, b.Extract(x.args[0], hi, lo), b.Extract(x.args[1], hi, lo))
	case OBvNot:
		return b.BvNot(b.Extract(x.args[0], hi, lo))
	case OSext:
		iw := x.args[0].sort.W
		if hi < iw {
			return b.Extract(x.args[0], hi, lo)
		}
	case OIte:
		if constTree(x, 12) {
			return b.mapTree(x, func(l *Term) *Term { return b.Extract(l, hi, lo) })
		}
		if x.args[1].IsConst() || x.args[2].IsConst() {
			return b.Ite(x.args[0], b.Extract(x.args[1], hi, lo), b.Extract(x.args[2], hi, lo))
		}
	case OBvAdd, OBvSub, OBvMul:
		if lo == 0 { // low bits of modular arithmetic depend only on low bits
			return b.bvBin(x.op, b.Extract(x.args[0], hi, 0), b.Extract(x.args[1], hi, 0))
		}
	}
	return b.mk(&Term{op: OExtract, sort: SBV(hi - lo + 1), args: []*Term{x}, hi: hi, lo: lo})
}

func (b *TB) Zext(x *Term, extra int) *Term {
	if extra == 0 {
		return x
	}
	return b.Concat(b.BV(0, extra), x)
}

func (b *TB) Sext(x *Term, extra int) *Term {
	if extra == 0 {
		return x
	}
	if x.IsConst() {
		return b.BVBig(x.Signed(), x.sort.W+extra)
	}
	return b.mk(&Term{op: OSext, sort: SBV(x.sort.W + extra), args: []*Term{x}, hi: extra})
}

func (b *TB) cmp(op Op, x, y *Term) *Term {
	if x.sort != y.sort {
		panic(fmt.Sprintf("cmp sort mismatch %v %v", x.sort, y.sort))
	}
	if x.IsConst() && y.IsConst() {
		var c int
		switch op {
		case OBvUlt, OBvUle, OILt, OILe:
			c = x.val.Cmp(y.val)
		default:
			c = x.Signed().Cmp(y.Signed())
		}
		switch op {
		case OBvUlt, OBvSlt, OILt:
			return b.Bool(c < 0)
		default:
			return b.Bool(c <= 0)
		}
	}
	if x == y {
		return b.Bool(op == OBvUle || op == OBvSle || op == OILe)
	}
	if x.op == OIte && y.IsConst() && constTree(x, 12) {
		return b.mapTree(x, func(l *Term) *Term { return b.cmp(op, l, y) })
	}
	if y.op == OIte && x.IsConst() && constTree(y, 12) {
		return b.mapTree(y, func(l *Term) *Term { return b.cmp(op, x, l) })
	}
	if op == OBvUlt && y.IsConst() && y.val.Sign() == 0 {
		return b.False
	}
	if op == OBvUle && x.IsConst() && x.val.Sign() == 0 {
		return b.True
	}
	if op == OBvUle && y.IsConst() && y.val.Cmp(maskW(y.sort.W)) == 0 {
		return b.True
	}
	// comparisons of zero-extended values against small constants
	if (op == OBvUlt || op == OBvUle) && x.op == OConcat && y.IsConst() && x.args[0].IsConst() && x.args[0].val.Sign() == 0 {
		zw := x.args[0].sort.W
		rest := b.Extract(x, x.sort.W-zw-1, 0)
		if y.val.BitLen() <= rest.sort.W {
			return b.cmp(op, rest, b.Extract(y, rest.sort.W-1, 0))
		}
		return b.True
	}
	if (op == OBvUlt || op == OBvUle) && y.op == OConcat && x.IsConst() && y.args[0].IsConst() && y.args[0].val.Sign() == 0 {
		zw := y.args[0].sort.W
		rest := b.Extract(y, y.sort.W-zw-1, 0)
		if x.val.BitLen() <= rest.sort.W {
			return b.cmp(op, b.Extract(x, rest.sort.W-1, 0), rest)
		}
		return b.False
	}
	// integer comparisons of bv2nat(x) against constants become bit-vector comparisons
	if op == OILt || op == OILe {
		if x.op == OBv2Int && y.IsConst() {
			w := x.args[0].sort.W
			lim := new(big.Int).Lsh(bigOne, uint(w))
			c := y.val
			if op == OILe {
				c = new(big.Int).Add(c, bigOne) // x <= c  <=>  x < c+1
			}
			if c.Sign() <= 0 {
				return b.False
			}
			if c.Cmp(lim) >= 0 {
				return b.True
			}
			return b.cmp(OBvUlt, x.args[0], b.BVBig(c, w))
		}
		if y.op == OBv2Int && x.IsConst() {
			w := y.args[0].sort.W
			lim := new(big.Int).Lsh(bigOne, uint(w))
			c := x.val
			if op == OILe {
				c = new(big.Int).Sub(c, bigOne) // c <= y  <=>  c-1 < y
			}
			if c.Sign() < 0 {
				return b.True
			}
			if c.Cmp(lim) >= 0 {
				return b.False
			}
			return b.cmp(OBvUlt, b.BVBig(c, w), y.args[0])
		}
	}
	return b.raw(op, SBool, x, y)
}

func (b *TB) Ult(x, y *Term) *Term { return b.cmp(OBvUlt, x, y) }
func (b *TB) Ule(x, y *Term) *Term { return b.cmp(OBvUle, x, y) }
func (b *TB) Slt(x, y *Term) *Term { return b.cmp(OBvSlt, x, y) }
func (b *TB) Sle(x, y *Term) *Term { return b.cmp(OBvSle, x, y) }

// ---------- integers

func (b *TB) iBin(op Op, x, y *Term) *Term {
	if x.sort.K != KInt || y.sort.K != KInt {
		panic("int op on non-int")
	}
	if x.IsConst() && y.IsConst() {
		r := new(big.Int)
		switch op {
		case OIAdd:
			return b.IntBig(r.Add(x.val, y.val))
		case OISub:
			return b.IntBig(r.Sub(x.val, y.val))
		case OIMul:
			return b.IntBig(r.Mul(x.val, y.val))
		case OIDiv: // SMT-LIB euclidean division
			if y.val.Sign() != 0 {
				m := new(big.Int)
				r.DivMod(x.val, y.val, m)
				return b.IntBig(r)
			}
		case OIMod:
			if y.val.Sign() != 0 {
				return b.IntBig(r.Mod(x.val, y.val))
			}
		}
	}
	isC := func(t *Term, v int64) bool { return t.IsConst() && t.val.IsInt64() && t.val.Int64() == v }
	if (op == OIAdd || op == OIMul) && x.id > y.id {
		x, y = y, x // commutative: canonical argument order
	}
	switch op {
	case OIAdd:
		if isC(x, 0) {
			return y
		}
		if isC(y, 0) {
			return x
		}
	case OISub:
		if isC(y, 0) {
			return x
		}
		if x == y {
			return b.Int(0)
		}
	case OIMul:
		if isC(x, 0) || isC(y, 0) {
			return b.Int(0)
		}
		if isC(x, 1) {
			return y
		}
		if isC(y, 1) {
			return x
		}
	case OIDiv:
		if isC(y, 1) {
			return x
		}
	}
	return b.raw(op, SInt, x, y)
}

func (b *TB) IAdd(x, y *Term) *Term { return b.iBin(OIAdd, x, y) }
func (b *TB) ISub(x, y *Term) *Term { return b.iBin(OISub, x, y) }
func (b *TB) IMul(x, y *Term) *Term { return b.iBin(OIMul, x, y) }
func (b *TB) IDiv(x, y *Term) *Term { return b.iBin(OIDiv, x, y) }
func (b *TB) IMod(x, y *Term) *Term { return b.iBin(OIMod, x, y) }
func (b *TB) INeg(x *Term) *Term {
	if x.IsConst() {
		return b.IntBig(new(big.Int).Neg(x.val))
	}
	return b.raw(OINeg, SInt, x)
}
func (b *TB) ILt(x, y *Term) *Term { return b.cmp(OILt, x, y) }
func (b *TB) ILe(x, y *Term) *Term { return b.cmp(OILe, x, y) }

func (b *TB) Bv2Int(x *Term) *Term {
	if x.IsConst() {
		return b.IntBig(x.val)
	}
	if x.op == OInt2Bv {
		// int2bv then bv2int = mod 2^w
		return b.IMod(x.args[0], b.IntBig(new(big.Int).Lsh(bigOne, uint(x.sort.W))))
	}
	return b.raw(OBv2Int, SInt, x)
}

func (b *TB) Int2Bv(x *Term, w int) *Term {
	if x.IsConst() {
		return b.BVBig(x.val, w)
	}
	if x.op == OBv2Int {
		iw := x.args[0].sort.W
		switch {
		case iw == w:
			return x.args[0]
		case iw < w:
			return b.Zext(x.args[0], w-iw)
		default:
			return b.Extract(x.args[0], w-1, 0)
		}
	}
	return b.mk(&Term{op: OInt2Bv, sort: SBV(w), args: []*Term{x}, hi: w})
}

// ---------- uninterpreted functions

func (b *TB) App(name string, res Sort, args ...*Term) *Term {
	sig, ok := b.ufs[name]
	if !ok {
		sig = ufSig{res: res}
		for _, a := range args {
			sig.args = append(sig.args, a.sort)
		}
		b.ufs[name] = sig
	} else {
		if sig.res != res || len(sig.args) != len(args) {
			panic("UF " + name + " used with different signature")
		}
		for i, a := range args {
			if a.sort != sig.args[i] {
				panic("UF " + name + " used with different arg sorts")
			}
		}
	}
	if len(args) == 0 {
		return b.Var(name, res)
	}
	return b.mk(&Term{op: OApp, sort: res, name: name, args: args})
}

// Defined applies an interpreted function given by an SMT-LIB body over parameters a0..an-1.
func (b *TB) Defined(name string, res Sort, body string, args ...*Term) *Term {
	t := b.App(name, res, args...)
	sig := b.ufs[name]
	sig.body = body
	b.ufs[name] = sig
	return t
}

// ---------- printing

func smtConst(t *Term) string {
	switch t.sort.K {
	case KBool:
		if t.val.Sign() != 0 {
			return "true"
		}
		return "false"
	case KInt:
		if t.val.Sign() < 0 {
			return "(- " + new(big.Int).Neg(t.val).String() + ")"
		}
		return t.val.String()
	}
	w := t.sort.W
	if w%4 == 0 {
		s := t.val.Text(16)
		return "#x" + strings.Repeat("0", w/4-len(s)) + s
	}
	s := t.val.Text(2)
	return "#b" + strings.Repeat("0", w-len(s)) + s
}

// ref returns the SMT text referring to t assuming all composite subterms are
// defined as t<id>.
func ref(t *Term) string {
	switch t.op {
	case OConst:
		return smtConst(t)
	case OVar:
		return t.name
	}
	return "t" + strconv.Itoa(t.id)
}

// body prints the defining expression of a composite term.
func body(t *Term) string {
	var sb strings.Builder
	switch t.op {
	case OExtract:
		fmt.Fprintf(&sb, "((_ extract %d %d) %s)", t.hi, t.lo, ref(t.args[0]))
		return sb.String()
	case OSext:
		fmt.Fprintf(&sb, "((_ sign_extend %d) %s)", t.hi, ref(t.args[0]))
		return sb.String()
	case OInt2Bv:
		fmt.Fprintf(&sb, "((_ int2bv %d) %s)", t.hi, ref(t.args[0]))
		return sb.String()
	case OApp:
		sb.WriteString("(" + t.name)
	default:
		sb.WriteString("(" + opNames[t.op])
	}
	for _, a := range t.args {
		sb.WriteByte(' ')
		sb.WriteString(ref(a))
	}
	sb.WriteByte(')')
	return sb.String()
}

// String gives a human-readable (fully expanded, depth-limited) rendering.
func (t *Term) String() string { return t.str(6) }

func (t *Term) str(d int) string {
	switch t.op {
	case OConst:
		return smtConst(t)
	case OVar:
		return t.name
	}
	if d == 0 {
		return "…"
	}
	var sb strings.Builder
	switch t.op {
	case OExtract:
		fmt.Fprintf(&sb, "(extract[%d:%d]", t.hi, t.lo)
	case OSext:
		fmt.Fprintf(&sb, "(sext%d", t.hi)
	case OInt2Bv:
		fmt.Fprintf(&sb, "(int2bv%d", t.hi)
	case OApp:
		sb.WriteString("(" + t.name)
	default:
		sb.WriteString("(" + opNames[t.op])
	}
	for _, a := range t.args {
		sb.WriteByte(' ')
		sb.WriteString(a.str(d - 1))
	}
	sb.WriteByte(')')
	return sb.String()
}
