module verif/engine

go 1.26.5

require (
	github.com/zeebo/blake3 v0.2.4
	golang.org/x/crypto v0.54.0
	golang.org/x/tools v0.50.0
)

require (
	github.com/klauspost/cpuid/v2 v2.4.0 // indirect
	golang.org/x/mod v0.41.0 // indirect
	golang.org/x/sync v0.23.0 // indirect
	golang.org/x/sys v0.48.0 // indirect
)
