package main

// Path exploration: decision-prefix re-execution, one solver per worker.

import (
	"fmt"
	"go/token"
	"math/big"
	"os"
	"runtime/debug"
	"sort"
	"strings"
	"sync"
	"sync/atomic"
	"time"

	"golang.org/x/tools/go/ssa"
)

type Config struct {
	Workers       int
	TimeoutMs     int
	MaxPreempts   int
	CollisionFree bool
	MaxSteps      int64
	MaxFanout     int
	MaxPaths      int64
	Solver        string
	CrossSolvers  []string
	Tier          int
	Seed          int64
	LogDir        string
	Trace         bool
	IntMode       bool
	MaxWitness    int
	MaxWallS      int
}

type Engine struct {
	prog    *ssa.Program
	fset    *token.FileSet
	entry   *ssa.Function
	cfg     Config
	stubs   map[string]*ssa.Function // target function name -> harness model
	initPkg map[string]bool          // package paths whose init is interpreted

	mu        sync.Mutex
	cond      *sync.Cond
	queue     [][]int
	active    int
	stopped   bool
	res       Results
	encoded   map[string]int // functions interpreted -> instruction count
	intrinsic map[string]bool
	known     []KnownFinding
	fnInfos   sync.Map
	forkSites map[string]int
}

type InputRec struct {
	Kind  string  // u8,u16,u32,u64,int,bool,bytes,big,choose,uf
	Label string  // for uf: function name
	Terms []*Term // bytes: one per byte
	Conc  int64   // choose
	Args  []*Term // uf: argument bytes (all arguments, concatenated)
}

type Violation struct {
	Kind     string   `json:"kind"` // assert | panic
	Label    string   `json:"label"`
	Site     string   `json:"site"`
	Msg      string   `json:"msg"`
	Prefix   []int    `json:"prefix"`
	Inputs   []CexVal `json:"values"`
	Covers   []string `json:"covers"`
	Stack    []string `json:"stack,omitempty"`
	KnownID  string   `json:"known_id,omitempty"`
	Replayed string   `json:"replayed,omitempty"`
}

type CexVal struct {
	Kind  string `json:"kind"`
	Label string `json:"label,omitempty"`
	Hex   string `json:"hex,omitempty"`  // bytes / uf
	Args  string `json:"args,omitempty"` // uf: argument bytes
	Int   string `json:"int,omitempty"`  // decimal for scalars / big
}

type Witness struct {
	Covers []string `json:"covers"`
	Inputs []CexVal `json:"values"`
	Prefix []int    `json:"prefix"`
	Obs    []string `json:"obs"`
}

type Results struct {
	Paths         int64
	Complete      int64
	Pruned        int64
	Violating     int64
	Inconclusive  []string
	Steps         int64
	Forks         int64
	Queries       int64
	QueriesFeas   int64
	QueriesOblig  int64
	QueriesCross  int64
	SolverTime    time.Duration
	Violations    []Violation
	Known         map[string]int
	Cover         map[string]int64
	Witnesses     []Witness
	witnessByKey  map[string]bool
	MaxPathSteps  int64
	CrossDisagree int
}

// control-flow panics used inside the interpreter
type pathAbort struct {
	kind string // prune | inconclusive
	msg  string
}

type goPanic struct {
	val   Value
	msg   string
	site  string
	stack []string
}

type Worker struct {
	id      int
	e       *Engine
	tb      *TB
	solver  *Solver
	cross   []*Solver
	consts  map[*ssa.Const]Value
	vars    map[int][]int
	alone   map[int]SatResult
	scratch *Solver
}

type Path struct {
	e         *Engine
	w         *Worker
	tb        *TB
	prefix    []int
	pos       int
	decisions []int
	pc        []*Term
	inputs    []InputRec
	globals   map[*ssa.Global]Ptr
	inited    map[*ssa.Package]bool
	covers    []string
	obs       []string
	steps     int64
	nvar      int
	frames    []*frame
	violated  bool
	errSent   map[string]*ErrObj
	ghost     map[string][]Value
	fnCount   map[*ssa.Function]int
	clock     *Term
	extra     map[string]any
	fnSteps   map[*ssa.Function]int
	makeCap   int
	pcSet     map[int]bool
	pcVars    map[int]bool
	threadsSt *threadState
}

func (p *Path) unsupported(msg string) pathAbort {
	return pathAbort{"inconclusive", "unsupported: " + msg + p.where()}
}

func (p *Path) where() string {
	if len(p.frames) == 0 {
		return ""
	}
	var sb strings.Builder
	n := 0
	for i := len(p.frames) - 1; i >= 0 && n < 6; i-- {
		fr := p.frames[i]
		sb.WriteString(" <- " + fr.fn.String())
		if fr.cur != nil {
			if pos := fr.cur.Pos(); pos.IsValid() {
				ps := p.e.fset.Position(pos)
				sb.WriteString(fmt.Sprintf("@%s:%d", shortFile(ps.Filename), ps.Line))
			}
		}
		n++
	}
	return sb.String()
}

func shortFile(f string) string {
	if i := strings.LastIndex(f, "/"); i >= 0 {
		if j := strings.LastIndex(f[:i], "/"); j >= 0 {
			return f[j+1:]
		}
	}
	return f
}

func (p *Path) stackStrings() []string {
	var out []string
	for i := len(p.frames) - 1; i >= 0; i-- {
		fr := p.frames[i]
		s := fr.fn.String()
		if fr.cur != nil {
			if pos := fr.cur.Pos(); pos.IsValid() {
				ps := p.e.fset.Position(pos)
				s += fmt.Sprintf(" %s:%d", shortFile(ps.Filename), ps.Line)
			}
		}
		out = append(out, s)
	}
	return out
}

func (p *Path) fresh(prefix string, s Sort) *Term {
	p.nvar++
	tag := "b"
	switch s.K {
	case KBV:
		tag = fmt.Sprint(s.W)
	case KInt:
		tag = "i"
	}
	return p.tb.Var(fmt.Sprintf("%s%s_%d", prefix, tag, p.nvar), s)
}

func (p *Path) assertPC(c *Term) {
	if c.IsTrue() {
		return
	}
	p.pc = append(p.pc, c)
	if p.pcSet == nil {
		p.pcSet = map[int]bool{}
	}
	p.pcSet[c.id] = true
	if p.pcVars == nil {
		p.pcVars = map[int]bool{}
	}
	for _, v := range p.w.varsOf(c) {
		p.pcVars[v] = true
	}
	if c.op == OAnd {
		for _, a := range c.args {
			p.pcSet[a.id] = true
		}
	}
	p.w.solver.Assert(p.tb, c)
}

// known decides c syntactically from the asserted literals (1 true, 0 false, -1 unknown).
func (p *Path) known(c *Term) int {
	if p.pcSet[c.id] {
		return 1
	}
	if p.pcSet[p.tb.Not(c).id] {
		return 0
	}
	if c.op == OAnd {
		all := true
		for _, a := range c.args {
			if p.pcSet[p.tb.Not(a).id] {
				return 0
			}
			if !p.pcSet[a.id] {
				all = false
			}
		}
		if all {
			return 1
		}
	}
	if c.op == OOr {
		none := true
		for _, a := range c.args {
			if p.pcSet[a.id] {
				return 1
			}
			if !p.pcSet[p.tb.Not(a).id] {
				none = false
			}
		}
		if none {
			return 0
		}
	}
	return -1
}

func (e *Engine) countQuery(kind string) {
	atomic.AddInt64(&e.res.Queries, 1)
	switch kind {
	case "feas":
		atomic.AddInt64(&e.res.QueriesFeas, 1)
	case "oblig":
		atomic.AddInt64(&e.res.QueriesOblig, 1)
	case "cross":
		atomic.AddInt64(&e.res.QueriesCross, 1)
	}
}

func (p *Path) feasible(c *Term) SatResult {
	if c.IsTrue() {
		return Sat
	}
	if c.IsFalse() {
		return Unsat
	}
	// a condition over variables the path condition does not mention is decided
	// independently of it: answer from a per-worker cache of stand-alone queries
	if p.independent(c) {
		if r, ok := p.w.alone[c.id]; ok {
			return r
		}
		if p.w.scratch == nil {
			lp := ""
			if p.e.cfg.LogDir != "" {
				lp = fmt.Sprintf("%s/scratch-%d.smt2", p.e.cfg.LogDir, p.w.id)
			}
			s, err := NewSolver(p.e.cfg.Solver, p.e.cfg.TimeoutMs, lp)
			if err == nil {
				p.w.scratch = s
			}
		}
		if p.w.scratch != nil {
			p.e.countQuery("feas")
			r, _ := p.w.scratch.Check(p.tb, c)
			if len(p.w.scratch.defined) > 200000 {
				p.w.scratch.NewPath()
			}
			if r != Unknown {
				p.w.alone[c.id] = r
				return r
			}
		}
	}
	p.e.countQuery("feas")
	r, _ := p.w.solver.Check(p.tb, c)
	return r
}

// varsOf returns the ids of the variables / UF applications a term depends on (memoised per TB).
func (w *Worker) varsOf(t *Term) []int {
	if v, ok := w.vars[t.id]; ok {
		return v
	}
	var out []int
	switch t.op {
	case OConst:
	case OVar:
		out = []int{t.id}
	default:
		seen := map[int]bool{}
		if t.op == OApp {
			// an uninterpreted application constrains every other application of the same function
			seen[-1-int(hashName(t.name))] = true
		}
		for _, a := range t.args {
			for _, v := range w.varsOf(a) {
				seen[v] = true
			}
		}
		out = make([]int, 0, len(seen))
		for v := range seen {
			out = append(out, v)
		}
	}
	w.vars[t.id] = out
	return out
}

func hashName(s string) uint32 {
	var h uint32 = 2166136261
	for i := 0; i < len(s); i++ {
		h ^= uint32(s[i])
		h *= 16777619
	}
	return h & 0x3fffffff
}

func (p *Path) independent(c *Term) bool {
	vs := p.w.varsOf(c)
	if len(vs) == 0 || len(vs) > 64 {
		return false
	}
	for _, v := range vs {
		if p.pcVars[v] {
			return false
		}
	}
	return true
}

// branch decides a symbolic condition, forking when both sides are feasible.
func (p *Path) branch(c *Term) bool {
	if c.IsTrue() {
		return true
	}
	if c.IsFalse() {
		return false
	}
	if k := p.known(c); k >= 0 {
		return k == 1
	}
	if p.pos < len(p.prefix) {
		d := p.prefix[p.pos]
		p.pos++
		p.decisions = append(p.decisions, d)
		if d == 1 {
			p.assertPC(c)
			return true
		}
		p.assertPC(p.tb.Not(c))
		return false
	}
	p.pos++
	rt := p.feasible(c)
	rf := Sat // the path condition is satisfiable, so if c is impossible its negation is not
	if rt != Unsat {
		rf = p.feasible(p.tb.Not(c))
	}
	switch {
	case rt != Unsat && rf != Unsat:
		alt := append(append([]int{}, p.decisions...), 0)
		p.e.enqueue(alt)
		p.noteFork()
		p.decisions = append(p.decisions, 1)
		p.assertPC(c)
		return true
	case rt != Unsat:
		p.decisions = append(p.decisions, 1)
		p.assertPC(c)
		return true
	case rf != Unsat:
		p.decisions = append(p.decisions, 0)
		p.assertPC(p.tb.Not(c))
		return false
	}
	panic(pathAbort{"prune", "infeasible path"})
}

// choose forks over the integers lo..hi (inclusive).
func (p *Path) choose(lo, hi int) int {
	if lo > hi {
		panic(pathAbort{"prune", "empty choose"})
	}
	if p.pos < len(p.prefix) {
		d := p.prefix[p.pos]
		p.pos++
		p.decisions = append(p.decisions, d)
		return d
	}
	p.pos++
	for v := hi; v > lo; v-- {
		alt := append(append([]int{}, p.decisions...), v)
		p.e.enqueue(alt)
		p.noteFork()
	}
	p.decisions = append(p.decisions, lo)
	return lo
}

// concretize forks over the feasible values of t (as unsigned), capped.
func (p *Path) concretize(t *Term, what string) uint64 {
	if t.IsConst() {
		return t.val.Uint64()
	}
	tb := p.tb
	mk := func(v int) *Term {
		if t.sort.K == KInt {
			return tb.Int(int64(v))
		}
		return tb.BV(uint64(v), t.sort.W)
	}
	if p.pos < len(p.prefix) {
		d := p.prefix[p.pos]
		p.pos++
		p.decisions = append(p.decisions, d)
		p.assertPC(tb.Eq(t, mk(d)))
		return uint64(d)
	}
	p.pos++
	var vals []int
	var excl []*Term
	for {
		p.e.countQuery("feas")
		r, m, why := p.w.solver.CheckModel(tb, tb.And(excl...), []*Term{t})
		if r == Unsat {
			break
		}
		if r == Unknown {
			panic(pathAbort{"inconclusive", "concretize " + what + ": solver " + why + p.where()})
		}
		if !m[0].IsInt64() || m[0].Int64() > 1<<31 {
			panic(pathAbort{"inconclusive", fmt.Sprintf("concretize %s: value %v too large%s", what, m[0], p.where())})
		}
		v := int(m[0].Int64())
		vals = append(vals, v)
		excl = append(excl, tb.Ne(t, mk(v)))
		if len(vals) > p.e.cfg.MaxFanout {
			panic(pathAbort{"inconclusive", fmt.Sprintf("unwind: concretize %s fan-out > %d%s", what, p.e.cfg.MaxFanout, p.where())})
		}
	}
	if len(vals) == 0 {
		panic(pathAbort{"prune", "infeasible path"})
	}
	sort.Ints(vals)
	for _, v := range vals[1:] {
		alt := append(append([]int{}, p.decisions...), v)
		p.e.enqueue(alt)
		p.noteFork()
	}
	p.decisions = append(p.decisions, vals[0])
	p.assertPC(tb.Eq(t, mk(vals[0])))
	return uint64(vals[0])
}

func (p *Path) noteFork() {
	if !debugForks || len(p.frames) == 0 {
		return
	}
	// attribute to the innermost mixin frame
	site := ""
	for i := len(p.frames) - 1; i >= 0; i-- {
		fr := p.frames[i]
		if strings.Contains(fr.fn.String(), "mixin") {
			site = fr.fn.String()
			if fr.cur != nil {
				pos := fr.cur.Pos()
				if ifi, ok := fr.cur.(*ssa.If); ok && !pos.IsValid() {
					pos = ifi.Cond.Pos()
					if !pos.IsValid() {
						if b, ok := ifi.Cond.(*ssa.BinOp); ok {
							pos = b.X.Pos()
							if !pos.IsValid() {
								pos = b.Y.Pos()
							}
						}
					}
				}
				if pos.IsValid() {
					site += fmt.Sprintf(":%d", p.e.fset.Position(pos).Line)
				}
			}
			break
		}
	}
	p.e.mu.Lock()
	if p.e.forkSites == nil {
		p.e.forkSites = map[string]int{}
	}
	p.e.forkSites[site]++
	p.e.mu.Unlock()
}

var debugForks = os.Getenv("GOSYM_DEBUG") != ""

func (e *Engine) dumpForkSites() {
	type kv struct {
		s string
		n int
	}
	var kvs []kv
	for s, n := range e.forkSites {
		kvs = append(kvs, kv{s, n})
	}
	sort.Slice(kvs, func(i, j int) bool { return kvs[i].n > kvs[j].n })
	for i, x := range kvs {
		if i < 25 {
			fmt.Fprintf(os.Stderr, "FORKSITE %8d %s\n", x.n, x.s)
		}
	}
}

func (e *Engine) enqueue(prefix []int) {
	e.mu.Lock()
	e.queue = append(e.queue, prefix)
	e.res.Forks++
	e.mu.Unlock()
	e.cond.Signal()
}

func (e *Engine) next() ([]int, bool) {
	e.mu.Lock()
	defer e.mu.Unlock()
	for {
		if e.stopped {
			return nil, false
		}
		if n := len(e.queue); n > 0 {
			pf := e.queue[n-1]
			e.queue = e.queue[:n-1]
			e.active++
			return pf, true
		}
		if e.active == 0 {
			e.cond.Broadcast()
			return nil, false
		}
		e.cond.Wait()
	}
}

func (e *Engine) done() {
	e.mu.Lock()
	e.active--
	if e.active == 0 && len(e.queue) == 0 {
		e.cond.Broadcast()
	}
	e.mu.Unlock()
}

func (e *Engine) Run() {
	e.cond = sync.NewCond(&e.mu)
	e.res.Cover = map[string]int64{}
	e.res.Known = map[string]int{}
	e.res.witnessByKey = map[string]bool{}
	e.encoded = map[string]int{}
	e.intrinsic = map[string]bool{}
	e.queue = [][]int{{}}
	if e.cfg.MaxWallS > 0 {
		timer := time.AfterFunc(time.Duration(e.cfg.MaxWallS)*time.Second, func() {
			e.mu.Lock()
			if !e.stopped {
				e.stopped = true
				e.res.Inconclusive = append(e.res.Inconclusive, fmt.Sprintf("unwind: wall-time budget %ds exceeded (paths so far %d, queue %d)", e.cfg.MaxWallS, e.res.Paths, len(e.queue)))
			}
			e.mu.Unlock()
			e.cond.Broadcast()
		})
		defer timer.Stop()
	}
	stopProgress := make(chan struct{})
	defer close(stopProgress)
	go func() {
		t := time.NewTicker(15 * time.Second)
		defer t.Stop()
		t0 := time.Now()
		for {
			select {
			case <-stopProgress:
				return
			case <-t.C:
				e.mu.Lock()
				fmt.Fprintf(os.Stderr, "  [%4.0fs] paths=%d queue=%d queries=%d violations=%d inconclusive=%d\n", time.Since(t0).Seconds(), e.res.Paths, len(e.queue), atomic.LoadInt64(&e.res.Queries), len(e.res.Violations), len(e.res.Inconclusive))
				e.mu.Unlock()
			}
		}
	}()
	var wg sync.WaitGroup
	for i := 0; i < e.cfg.Workers; i++ {
		wg.Add(1)
		go func(id int) {
			defer wg.Done()
			w := &Worker{id: id, e: e, tb: NewTB(), consts: map[*ssa.Const]Value{}, vars: map[int][]int{}, alone: map[int]SatResult{}}
			logp := ""
			if e.cfg.LogDir != "" {
				logp = fmt.Sprintf("%s/solver-%d.smt2", e.cfg.LogDir, id)
			}
			s, err := NewSolver(e.cfg.Solver, e.cfg.TimeoutMs, logp)
			if err != nil {
				e.inconclusive("cannot start solver: " + err.Error())
				return
			}
			w.solver = s
			defer func() {
				e.mu.Lock()
				e.res.SolverTime += s.time
				for _, c := range w.cross {
					e.res.SolverTime += c.time
				}
				e.mu.Unlock()
				s.Close()
				if w.scratch != nil {
					w.scratch.Close()
				}
				for _, c := range w.cross {
					c.Close()
				}
			}()
			npaths := 0
			for {
				pf, ok := e.next()
				if !ok {
					return
				}
				w.runPath(pf)
				e.done()
				npaths++
				if npaths%200 == 0 && len(w.tb.tab) > 2_000_000 {
					w.tb = NewTB()
					w.consts = map[*ssa.Const]Value{}
					w.vars = map[int][]int{}
					w.alone = map[int]SatResult{}
					if w.scratch != nil {
						w.scratch.NewPath()
					}
				}
			}
		}(i)
	}
	wg.Wait()
	if debugForks {
		e.dumpForkSites()
	}
}

func (e *Engine) inconclusive(msg string) {
	if os.Getenv("GOSYM_DEBUG") != "" {
		fmt.Fprintln(os.Stderr, "INCONCLUSIVE:", msg)
	}
	e.mu.Lock()
	if len(e.res.Inconclusive) < 50 {
		e.res.Inconclusive = append(e.res.Inconclusive, msg)
	} else if len(e.res.Inconclusive) == 50 {
		e.res.Inconclusive = append(e.res.Inconclusive, "...")
	}
	e.mu.Unlock()
}

func (w *Worker) runPath(prefix []int) {
	e := w.e
	w.solver.NewPath()
	p := &Path{e: e, w: w, tb: w.tb, prefix: prefix,
		globals: map[*ssa.Global]Ptr{}, inited: map[*ssa.Package]bool{},
		errSent: map[string]*ErrObj{}, ghost: map[string][]Value{}, fnCount: map[*ssa.Function]int{},
		extra: map[string]any{}}
	if os.Getenv("GOSYM_FNSTEPS") != "" && len(prefix) == 0 {
		p.fnSteps = map[*ssa.Function]int{}
		defer func() {
			type kv struct {
				f string
				n int
			}
			var kvs []kv
			for f, n := range p.fnSteps {
				kvs = append(kvs, kv{f.String(), n})
			}
			sort.Slice(kvs, func(i, j int) bool { return kvs[i].n > kvs[j].n })
			for i, x := range kvs {
				if i < 25 {
					fmt.Fprintf(os.Stderr, "FNSTEPS %8d %s\n", x.n, x.f)
				}
			}
		}()
	}
	status := "complete"
	func() {
		defer func() {
			if r := recover(); r != nil {
				switch r := r.(type) {
				case pathAbort:
					if r.kind == "prune" {
						status = "pruned"
					} else {
						status = "inconclusive"
						e.inconclusive(r.msg)
					}
				case goPanic:
					status = "panic"
					p.reportViolation("panic", r.site, r.site, r.msg, r.stack)
				default:
					status = "inconclusive"
					st := string(debug.Stack())
					if len(st) > 3000 {
						st = st[:3000]
					}
					e.inconclusive(fmt.Sprintf("engine panic: %v%s\n%s", r, p.where(), st))
				}
			}
		}()
		p.initPackages()
		p.callFunction(e.entry, nil, nil)
	}()
	if status == "complete" || status == "panic" {
		p.recordWitness(status)
	}
	e.mu.Lock()
	e.res.Paths++
	e.res.Steps += p.steps
	if p.steps > e.res.MaxPathSteps {
		e.res.MaxPathSteps = p.steps
	}
	switch status {
	case "complete":
		e.res.Complete++
		for _, c := range p.covers {
			e.res.Cover[c]++
		}
	case "pruned":
		e.res.Pruned++
	case "panic":
		e.res.Violating++
	}
	if p.violated && status == "complete" {
		e.res.Violating++
	}
	for f, n := range p.fnCount {
		name := f.String()
		if n > e.encoded[name] {
			e.encoded[name] = n
		}
	}
	if e.cfg.MaxPaths > 0 && e.res.Paths >= e.cfg.MaxPaths && !e.stopped {
		e.stopped = true
		e.res.Inconclusive = append(e.res.Inconclusive, fmt.Sprintf("unwind: path budget %d exceeded", e.cfg.MaxPaths))
		e.cond.Broadcast()
	}
	e.mu.Unlock()
}

// model evaluates the recorded inputs under pc ∧ extra.
func (p *Path) model(extra *Term) (SatResult, []CexVal, string) {
	var ts []*Term
	for _, in := range p.inputs {
		ts = append(ts, in.Terms...)
		ts = append(ts, in.Args...)
	}
	r, vals, why := p.w.solver.CheckModel(p.tb, extra, ts)
	if r != Sat {
		return r, nil, why
	}
	var out []CexVal
	k := 0
	for _, in := range p.inputs {
		cv := CexVal{Kind: in.Kind, Label: in.Label}
		switch in.Kind {
		case "choose", "sched":
			cv.Int = fmt.Sprint(in.Conc)
		case "bytes", "uf":
			var sb strings.Builder
			for range in.Terms {
				fmt.Fprintf(&sb, "%02x", vals[k].Uint64()&0xff)
				k++
			}
			cv.Hex = sb.String()
			if in.Kind == "uf" {
				var ab strings.Builder
				for range in.Args {
					fmt.Fprintf(&ab, "%02x", vals[k].Uint64()&0xff)
					k++
				}
				cv.Args = ab.String()
			}
		default:
			v := vals[k]
			k++
			cv.Int = v.String()
		}
		out = append(out, cv)
	}
	return Sat, out, ""
}

func (p *Path) reportViolation(kind, label, site, msg string, stack []string) {
	e := p.e
	p.violated = true
	e.countQuery("oblig")
	r, vals, why := p.model(nil)
	if r == Unsat {
		return // path became infeasible (after unknown feasibility answers)
	}
	if r == Unknown {
		e.inconclusive(fmt.Sprintf("violation candidate %s %s: model query %s", kind, label, why))
		return
	}
	if debugForks {
		fmt.Printf("VIOLATION-CANDIDATE: %s %s %s covers=%v\n", kind, label, site, p.covers)
	}
	v := Violation{Kind: kind, Label: label, Site: site, Msg: msg, Prefix: append([]int{}, p.decisions...),
		Inputs: vals, Covers: append([]string{}, p.covers...), Stack: stack}
	e.mu.Lock()
	if len(e.res.Violations) < 200 {
		e.res.Violations = append(e.res.Violations, v)
	}
	e.mu.Unlock()
}

// checkAssert: obligation pc ⇒ c.
func (p *Path) checkAssert(c *Term, label string) {
	if c.IsTrue() {
		return
	}
	e := p.e
	e.countQuery("oblig")
	neg := p.tb.Not(c)
	r, vals, why := p.model(neg)
	switch r {
	case Unsat:
		p.crossCheck(neg, label)
		return
	case Unknown:
		e.inconclusive(fmt.Sprintf("obligation %q: solver %s%s", label, why, p.where()))
		p.assertPC(c)
		return
	}
	p.violated = true
	v := Violation{Kind: "assert", Label: label, Site: label, Msg: "assertion " + label + " can fail",
		Prefix: append([]int{}, p.decisions...), Inputs: vals, Covers: append([]string{}, p.covers...), Stack: p.stackStrings()}
	e.mu.Lock()
	if len(e.res.Violations) < 200 {
		e.res.Violations = append(e.res.Violations, v)
	}
	e.mu.Unlock()
	// continue the path under the assertion so later, different failures are still found
	if p.feasible(c) == Unsat {
		panic(pathAbort{"prune", "assertion always fails here"})
	}
	p.assertPC(c)
}

// crossCheck re-discharges an unsat obligation on the other back ends.
func (p *Path) crossCheck(neg *Term, label string) {
	e := p.e
	if len(e.cfg.CrossSolvers) == 0 {
		return
	}
	if e.cfg.Tier == 0 {
		// quick tier: cross-check the first 25 discharged obligations per label
		e.mu.Lock()
		n := e.res.Known["crosschecked:"+label]
		e.res.Known["crosschecked:"+label] = n + 1
		e.mu.Unlock()
		if n >= 25 {
			return
		}
	}
	w := p.w
	if w.cross == nil {
		for _, n := range e.cfg.CrossSolvers {
			s, err := NewSolver(n, e.cfg.TimeoutMs, "")
			if err != nil {
				e.inconclusive("cannot start cross solver " + n)
				continue
			}
			w.cross = append(w.cross, s)
		}
	}
	for _, s := range w.cross {
		s.NewPath()
		for _, c := range p.pc {
			s.Assert(p.tb, c)
		}
		e.countQuery("cross")
		r, why := s.Check(p.tb, neg)
		if r == Sat {
			e.mu.Lock()
			e.res.CrossDisagree++
			e.mu.Unlock()
			e.inconclusive(fmt.Sprintf("solver disagreement on obligation %q: %s says sat, %s said unsat", label, s.name, e.cfg.Solver))
		} else if r == Unknown {
			_ = why // a cross-check timeout does not weaken the primary verdict; it is counted
			e.mu.Lock()
			e.res.Known["cross-unknown:"+s.name]++
			e.mu.Unlock()
		}
	}
}

func (p *Path) recordWitness(status string) {
	e := p.e
	key := status + "|" + strings.Join(p.covers, ",")
	e.mu.Lock()
	have := e.res.witnessByKey[key]
	n := len(e.res.Witnesses)
	if !have && n < e.cfg.MaxWitness {
		e.res.witnessByKey[key] = true
	}
	e.mu.Unlock()
	if have || n >= e.cfg.MaxWitness {
		return
	}
	r, vals, _ := p.model(nil)
	if r != Sat {
		e.mu.Lock()
		delete(e.res.witnessByKey, key)
		e.mu.Unlock()
		return
	}
	w := Witness{Covers: append([]string{}, p.covers...), Inputs: vals, Prefix: append([]int{}, p.decisions...), Obs: append([]string{}, p.obs...)}
	if status == "panic" {
		w.Covers = append(w.Covers, "<panic>")
	}
	e.mu.Lock()
	e.res.Witnesses = append(e.res.Witnesses, w)
	e.mu.Unlock()
}

func (p *Path) addInput(kind, label string, ts ...*Term) {
	p.inputs = append(p.inputs, InputRec{Kind: kind, Label: label, Terms: ts})
}

func bigFromDec(s string) *big.Int {
	v, _ := new(big.Int).SetString(s, 10)
	return v
}

func fatal(format string, a ...any) {
	fmt.Fprintf(os.Stderr, format+"\n", a...)
	os.Exit(2)
}
