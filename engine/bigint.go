package main

// math/big.Int as mathematical integers (SMT Int terms).

import (
	"fmt"
	"math"
	"math/big"

	"golang.org/x/tools/go/ssa"
)

func bigOf(p *Path, v Value) *Term {
	a, _ := v.(Ptr)
	if a == nil {
		p.goPanicf("nil-deref", "nil *big.Int")
	}
	return p.bigInt((*a).(Big))
}

// bigInt gives the SMT Int view of a big value (BV-backed values are non-negative magnitudes).
func (p *Path) bigInt(b Big) *Term {
	if b.t.sort.K == KBV {
		return p.tb.Bv2Int(b.t)
	}
	return b.t
}

// bigRaw returns the stored term (Int, or BV for values that came from SetBytes).
func bigRaw(p *Path, v Value) *Term {
	a, _ := v.(Ptr)
	if a == nil {
		p.goPanicf("nil-deref", "nil *big.Int")
	}
	return (*a).(Big).t
}

// bvByteLen forks on the minimal byte length of a BV-backed magnitude.
func (p *Path) bvByteLen(x *Term) int {
	tb := p.tb
	w := x.sort.W
	n := w / 8
	for k := 0; k < n; k++ {
		if p.branch(tb.Eq(tb.Extract(x, w-1, 8*k), tb.BV(0, w-8*k))) {
			return k
		}
	}
	return n
}

func (p *Path) bvWiden(x *Term, w int) *Term {
	if x.sort.W < w {
		return p.tb.Zext(x, w-x.sort.W)
	}
	return x
}

func setBig(p *Path, v Value, t *Term) Value {
	a, _ := v.(Ptr)
	if a == nil {
		p.goPanicf("nil-deref", "nil *big.Int receiver")
	}
	*a = Big{t}
	return v
}

func (p *Path) int64ToInt(x *Term, signed bool) *Term {
	tb := p.tb
	if x.sort.K == KInt {
		return x
	}
	u := tb.Bv2Int(x)
	if !signed {
		return u
	}
	w := x.sort.W
	if x.IsConst() {
		return tb.IntBig(x.Signed())
	}
	return tb.Ite(tb.Slt(x, tb.BV(0, w)), tb.ISub(u, tb.IntBig(new(big.Int).Lsh(bigOne, uint(w)))), u)
}

func (p *Path) iAbs(x *Term) *Term {
	tb := p.tb
	if x.IsConst() {
		return tb.IntBig(new(big.Int).Abs(x.val))
	}
	return tb.Ite(tb.ILt(x, tb.Int(0)), tb.INeg(x), x)
}

func (p *Path) iSign(x *Term) *Term { // Go int -1/0/1
	tb := p.tb
	return tb.Ite(tb.ILt(x, tb.Int(0)), p.ic(-1, 64), tb.Ite(tb.Eq(x, tb.Int(0)), p.ic(0, 64), p.ic(1, 64)))
}

func (p *Path) divZeroCheck(y *Term) {
	if !p.branch(p.tb.Ne(y, p.tb.Int(0))) {
		p.goPanicf("divide-by-zero", "division by zero (big.Int)")
	}
}

// byteLen forks on the minimal number of bytes needed for |x| (bounded by cfg).
func (p *Path) byteLen(x *Term) int {
	tb := p.tb
	ax := p.iAbs(x)
	if ax.IsConst() {
		return (ax.val.BitLen() + 7) / 8
	}
	limit := 64
	for k := 0; k <= limit; k++ {
		if p.branch(tb.ILt(ax, tb.IntBig(new(big.Int).Lsh(bigOne, uint(8*k))))) {
			return k
		}
	}
	panic(pathAbort{"inconclusive", "unwind: big.Int byte length above 64" + p.where()})
}

func (p *Path) bigBytes(x *Term, n int) Slice {
	tb := p.tb
	out := make(Slice, n)
	if n == 0 {
		return out
	}
	bv := tb.Int2Bv(p.iAbs(x), 8*n)
	for i := 0; i < n; i++ {
		out[i] = tb.Extract(bv, 8*(n-i)-1, 8*(n-i-1))
	}
	return out
}

func registerBigIntrinsics() {
	bin := func(f func(p *Path, x, y *Term) *Term) intrinsicFn {
		return func(p *Path, _ *ssa.Function, a []Value) Value {
			return setBig(p, a[0], f(p, bigOf(p, a[1]), bigOf(p, a[2])))
		}
	}
	m := map[string]intrinsicFn{
		"math/big.NewInt": func(p *Path, _ *ssa.Function, a []Value) Value {
			cell := new(Value)
			*cell = Big{p.int64ToInt(a[0].(*Term), true)}
			return Ptr(cell)
		},
		"(*math/big.Int).SetUint64": func(p *Path, _ *ssa.Function, a []Value) Value {
			return setBig(p, a[0], p.int64ToInt(a[1].(*Term), false))
		},
		"(*math/big.Int).SetInt64": func(p *Path, _ *ssa.Function, a []Value) Value {
			return setBig(p, a[0], p.int64ToInt(a[1].(*Term), true))
		},
		"(*math/big.Int).Set": func(p *Path, _ *ssa.Function, a []Value) Value {
			return setBig(p, a[0], bigRaw(p, a[1]))
		},
		"(*math/big.Int).Add": bin(func(p *Path, x, y *Term) *Term { return p.tb.IAdd(x, y) }),
		"(*math/big.Int).Sub": bin(func(p *Path, x, y *Term) *Term { return p.tb.ISub(x, y) }),
		"(*math/big.Int).Mul": bin(func(p *Path, x, y *Term) *Term { return p.tb.IMul(x, y) }),
		"(*math/big.Int).Div": bin(func(p *Path, x, y *Term) *Term { p.divZeroCheck(y); return p.tb.IDiv(x, y) }),
		"(*math/big.Int).Mod": bin(func(p *Path, x, y *Term) *Term { p.divZeroCheck(y); return p.tb.IMod(x, y) }),
		"(*math/big.Int).Quo": bin(func(p *Path, x, y *Term) *Term { p.divZeroCheck(y); return p.iQuo(x, y) }),
		"(*math/big.Int).Rem": bin(func(p *Path, x, y *Term) *Term {
			p.divZeroCheck(y)
			return p.tb.ISub(x, p.tb.IMul(y, p.iQuo(x, y)))
		}),
		"(*math/big.Int).DivMod": func(p *Path, _ *ssa.Function, a []Value) Value {
			x, y := bigOf(p, a[1]), bigOf(p, a[2])
			p.divZeroCheck(y)
			setBig(p, a[3], p.tb.IMod(x, y))
			setBig(p, a[0], p.tb.IDiv(x, y))
			return Tuple{a[0], a[3]}
		},
		"(*math/big.Int).QuoRem": func(p *Path, _ *ssa.Function, a []Value) Value {
			x, y := bigOf(p, a[1]), bigOf(p, a[2])
			p.divZeroCheck(y)
			q := p.iQuo(x, y)
			setBig(p, a[3], p.tb.ISub(x, p.tb.IMul(y, q)))
			setBig(p, a[0], q)
			return Tuple{a[0], a[3]}
		},
		"(*math/big.Int).Lsh": func(p *Path, _ *ssa.Function, a []Value) Value {
			n := a[2].(*Term)
			if !n.IsConst() {
				panic(p.unsupported("big.Int.Lsh by symbolic amount"))
			}
			return setBig(p, a[0], p.tb.IMul(bigOf(p, a[1]), p.tb.IntBig(new(big.Int).Lsh(bigOne, uint(n.val.Uint64())))))
		},
		"(*math/big.Int).Rsh": func(p *Path, _ *ssa.Function, a []Value) Value {
			n := a[2].(*Term)
			if !n.IsConst() {
				panic(p.unsupported("big.Int.Rsh by symbolic amount"))
			}
			return setBig(p, a[0], p.tb.IDiv(bigOf(p, a[1]), p.tb.IntBig(new(big.Int).Lsh(bigOne, uint(n.val.Uint64())))))
		},
		"(*math/big.Int).Abs": func(p *Path, _ *ssa.Function, a []Value) Value {
			return setBig(p, a[0], p.iAbs(bigOf(p, a[1])))
		},
		"(*math/big.Int).Neg": func(p *Path, _ *ssa.Function, a []Value) Value {
			return setBig(p, a[0], p.tb.INeg(bigOf(p, a[1])))
		},
		"(*math/big.Int).Cmp": func(p *Path, _ *ssa.Function, a []Value) Value {
			if rx, ry := bigRaw(p, a[0]), bigRaw(p, a[1]); rx.sort.K == KBV && ry.sort.K == KBV {
				w := max(rx.sort.W, ry.sort.W)
				rx, ry = p.bvWiden(rx, w), p.bvWiden(ry, w)
				return p.tb.Ite(p.tb.Ult(rx, ry), p.ic(-1, 64), p.tb.Ite(p.tb.Eq(rx, ry), p.ic(0, 64), p.ic(1, 64)))
			}
			x, y := bigOf(p, a[0]), bigOf(p, a[1])
			return p.iSign(p.tb.ISub(x, y))
		},
		"(*math/big.Int).CmpAbs": func(p *Path, _ *ssa.Function, a []Value) Value {
			x, y := p.iAbs(bigOf(p, a[0])), p.iAbs(bigOf(p, a[1]))
			return p.iSign(p.tb.ISub(x, y))
		},
		"(*math/big.Int).Sign": func(p *Path, _ *ssa.Function, a []Value) Value {
			if rx := bigRaw(p, a[0]); rx.sort.K == KBV {
				return p.tb.Ite(p.tb.Eq(rx, p.tb.BV(0, rx.sort.W)), p.ic(0, 64), p.ic(1, 64))
			}
			return p.iSign(bigOf(p, a[0]))
		},
		"(*math/big.Int).IsUint64": func(p *Path, _ *ssa.Function, a []Value) Value {
			if rx := bigRaw(p, a[0]); rx.sort.K == KBV {
				if rx.sort.W <= 64 {
					return p.tb.True
				}
				return p.tb.Eq(p.tb.Extract(rx, rx.sort.W-1, 64), p.tb.BV(0, rx.sort.W-64))
			}
			x := bigOf(p, a[0])
			return p.tb.And(p.tb.ILe(p.tb.Int(0), x), p.tb.ILt(x, p.tb.IntBig(new(big.Int).Lsh(bigOne, 64))))
		},
		"(*math/big.Int).IsInt64": func(p *Path, _ *ssa.Function, a []Value) Value {
			x := bigOf(p, a[0])
			lim := new(big.Int).Lsh(bigOne, 63)
			return p.tb.And(p.tb.ILe(p.tb.IntBig(new(big.Int).Neg(lim)), x), p.tb.ILt(x, p.tb.IntBig(lim)))
		},
		"(*math/big.Int).Uint64": func(p *Path, _ *ssa.Function, a []Value) Value {
			if rx := bigRaw(p, a[0]); rx.sort.K == KBV {
				if rx.sort.W >= 64 {
					return p.tb.Extract(rx, 63, 0)
				}
				return p.tb.Zext(rx, 64-rx.sort.W)
			}
			if p.intW(64) {
				return p.tb.IMod(p.iAbs(bigOf(p, a[0])), p.tb.IntBig(pow2(64)))
			}
			return p.tb.Int2Bv(p.iAbs(bigOf(p, a[0])), 64)
		},
		"(*math/big.Int).Int64": func(p *Path, _ *ssa.Function, a []Value) Value {
			x := bigOf(p, a[0])
			if p.intW(64) {
				return p.wrap(x, 64, true)
			}
			lo := p.tb.Int2Bv(p.iAbs(x), 64)
			return p.tb.Ite(p.tb.ILt(x, p.tb.Int(0)), p.tb.BvNeg(lo), lo)
		},
		"(*math/big.Int).BitLen": func(p *Path, _ *ssa.Function, a []Value) Value {
			if rx := bigRaw(p, a[0]); rx.sort.K == KBV && !rx.IsConst() {
				k := p.bvByteLen(rx)
				if k == 0 {
					return p.i64(0)
				}
				top := p.tb.Extract(rx, 8*k-1, 8*k-8)
				r := p.i64(uint64(8*k))
				for bits := 7; bits >= 1; bits-- {
					r = p.tb.Ite(p.tb.Ult(top, p.tb.BV(1<<uint(bits), 8)), p.i64(uint64(8*k-8+bits)), r)
				}
				return r
			}
			x := p.iAbs(bigOf(p, a[0]))
			if x.IsConst() {
				return p.i64(uint64(x.val.BitLen()))
			}
			k := p.byteLen(x)
			if k == 0 {
				return p.i64(0)
			}
			// exact bit length within the top byte as an ite chain (no fork)
			r := p.i64(uint64(8*k))
			for bits := 8*k - 1; bits >= 8*k-7; bits-- {
				r = p.tb.Ite(p.tb.ILt(x, p.tb.IntBig(new(big.Int).Lsh(bigOne, uint(bits)))), p.i64(uint64(bits)), r)
			}
			return r
		},
		"(*math/big.Int).Bytes": func(p *Path, _ *ssa.Function, a []Value) Value {
			if rx := bigRaw(p, a[0]); rx.sort.K == KBV && !rx.IsConst() {
				if p.onlyFeedsSetBytes() {
					return Slice{lazyBigBytes{rx}}
				}
				k := p.bvByteLen(rx)
				out := make(Slice, k)
				for i := 0; i < k; i++ {
					out[i] = p.tb.Extract(rx, 8*(k-i)-1, 8*(k-i-1))
				}
				return out
			}
			x := bigOf(p, a[0])
			if !x.IsConst() && p.onlyFeedsSetBytes() {
				// z.SetBytes(x.Bytes()) is |x| whatever the byte length: no fork needed
				return Slice{lazyBigBytes{p.iAbs(x)}}
			}
			k := p.byteLen(x)
			return p.bigBytes(x, k)
		},
		"(*math/big.Int).FillBytes": func(p *Path, _ *ssa.Function, a []Value) Value {
			buf := a[1].(Slice)
			n := len(buf)
			if rx := bigRaw(p, a[0]); rx.sort.K == KBV && !rx.IsConst() {
				w := rx.sort.W
				if w > 8*n {
					if !p.branch(p.tb.Eq(p.tb.Extract(rx, w-1, 8*n), p.tb.BV(0, w-8*n))) {
						p.goPanicf("fillbytes", "math/big: buffer too small to fit value")
					}
					if n == 0 {
						return buf
					}
					rx = p.tb.Extract(rx, 8*n-1, 0)
				} else {
					rx = p.bvWiden(rx, 8*n)
				}
				for i := 0; i < n; i++ {
					buf[i] = p.tb.Extract(rx, 8*(n-i)-1, 8*(n-i-1))
				}
				return buf
			}
			x := bigOf(p, a[0])
			if !p.branch(p.tb.ILt(p.iAbs(x), p.tb.IntBig(new(big.Int).Lsh(bigOne, uint(8*n))))) {
				p.goPanicf("fillbytes", "math/big: buffer too small to fit value")
			}
			copy(buf, p.bigBytes(x, n))
			return buf
		},
		"(*math/big.Int).SetBytes": func(p *Path, _ *ssa.Function, a []Value) Value {
			buf := a[1].(Slice)
			if len(buf) == 0 {
				return setBig(p, a[0], p.tb.Int(0))
			}
			if lb, ok := buf[0].(lazyBigBytes); ok {
				return setBig(p, a[0], lb.t)
			}
			cat := p.tb.Concat(termsOf(buf)...)
			if cat.IsConst() {
				return setBig(p, a[0], p.tb.IntBig(cat.val))
			}
			return setBig(p, a[0], cat) // BV-backed magnitude
		},
		"(*math/big.Int).SetString": func(p *Path, _ *ssa.Function, a []Value) Value {
			s, ok := a[1].(Str).concrete()
			base := a[2].(*Term)
			if !ok || !base.IsConst() {
				panic(p.unsupported("big.Int.SetString of symbolic string"))
			}
			v, good := new(big.Int).SetString(s, int(base.val.Int64()))
			if !good {
				return Tuple{Ptr(nil), p.tb.False}
			}
			setBig(p, a[0], p.tb.IntBig(v))
			return Tuple{a[0], p.tb.True}
		},
		"(*math/big.Int).String": func(p *Path, _ *ssa.Function, a []Value) Value {
			x := bigOf(p, a[0])
			if x.IsConst() {
				return p.strConst(x.val.String())
			}
			return Str{sym: &SymStr{kind: "bigdec", args: []Value{Big{x}}}}
		},
		"math.Pow": func(p *Path, _ *ssa.Function, a []Value) Value {
			return Float{math.Pow(a[0].(Float).f, a[1].(Float).f)}
		},
		"math.Abs": func(p *Path, _ *ssa.Function, a []Value) Value {
			if sf, ok := a[0].(SFloat); ok {
				return p.sfloatAbs(sf)
			}
			return Float{math.Abs(a[0].(Float).f)}
		},
	}
	for k, v := range m {
		intrinsics[k] = v
	}
}

// iQuo: truncated division.
func (p *Path) iQuo(x, y *Term) *Term {
	tb := p.tb
	if x.IsConst() && y.IsConst() && y.val.Sign() != 0 {
		return tb.IntBig(new(big.Int).Quo(x.val, y.val))
	}
	q := tb.IDiv(p.iAbs(x), p.iAbs(y))
	neg := tb.Ne(tb.ILt(x, tb.Int(0)), tb.ILt(y, tb.Int(0)))
	return tb.Ite(neg, tb.INeg(q), q)
}

var _ = fmt.Sprint

// lazyBigBytes is the result of x.Bytes() when the SSA shows that its only use
// is as the argument of (*big.Int).SetBytes.
type lazyBigBytes struct{ t *Term }

func (p *Path) onlyFeedsSetBytes() bool {
	if len(p.frames) == 0 {
		return false
	}
	call, ok := p.frames[len(p.frames)-1].cur.(*ssa.Call)
	if !ok || call.Referrers() == nil {
		return false
	}
	refs := *call.Referrers()
	if len(refs) == 0 {
		return false
	}
	for _, r := range refs {
		if _, isDbg := r.(*ssa.DebugRef); isDbg {
			continue
		}
		c, ok := r.(*ssa.Call)
		if !ok {
			return false
		}
		callee := c.Call.StaticCallee()
		if callee == nil || callee.String() != "(*math/big.Int).SetBytes" || len(c.Call.Args) != 2 || c.Call.Args[1] != ssa.Value(call) {
			return false
		}
	}
	return true
}
