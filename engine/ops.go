package main

import (
	"fmt"
	"go/token"
	"go/types"
	"math"
	"math/big"
	"unicode/utf8"

	"golang.org/x/tools/go/ssa"
)

type bigInt = big.Int

func (p *Path) unop(ins *ssa.UnOp, x Value) Value {
	tb := p.tb
	switch ins.Op {
	case token.MUL: // load
		a, _ := x.(Ptr)
		if a == nil {
			p.goPanicf("nil-deref", "nil pointer dereference (load of %s)", ins.X.Type())
		}
		return copyVal(*a)
	case token.NOT:
		return tb.Not(x.(*Term))
	case token.SUB:
		switch x := x.(type) {
		case *Term:
			if x.sort.K == KInt {
				w, signed, _ := intInfo(ins.Type())
				return p.wrap(tb.INeg(x), w, signed)
			}
			return tb.BvNeg(x)
		case Float:
			return Float{-x.f}
		}
	case token.XOR:
		if xt := x.(*Term); xt.sort.K == KInt {
			w, signed, _ := intInfo(ins.Type())
			if signed {
				return tb.ISub(tb.INeg(xt), tb.Int(1))
			}
			return tb.ISub(tb.IntBig(maskW(w)), xt)
		}
		return tb.BvNot(x.(*Term))
	case token.ARROW:
		panic(p.unsupported("channel receive"))
	}
	panic(p.unsupported(fmt.Sprintf("unop %s on %T", ins.Op, x)))
}

func (p *Path) binop(op token.Token, xt types.Type, x, y Value, yt types.Type) Value {
	tb := p.tb
	if _, ok := x.(SFloat); ok {
		return p.sfloatBinop(op, x, y)
	}
	if _, ok := y.(SFloat); ok {
		return p.sfloatBinop(op, x, y)
	}
	switch op {
	case token.EQL:
		return p.equal(x, y)
	case token.NEQ:
		return tb.Not(p.equal(x, y))
	}
	switch xv := x.(type) {
	case *Term:
		yv := y.(*Term)
		if xv.sort.K == KBool {
			switch op {
			case token.AND, token.LAND:
				return tb.And(xv, yv)
			case token.OR, token.LOR:
				return tb.Or(xv, yv)
			}
			panic(p.unsupported("bool binop " + op.String()))
		}
		w, signed, ok := intInfo(xt)
		if !ok {
			panic(p.unsupported("binop on non-integer " + xt.String()))
		}
		if xv.sort.K == KInt || yv.sort.K == KInt {
			yw, ysigned, _ := intInfo(yt)
			if xv.sort.K != KInt {
				xv = p.int64ToInt(xv, signed)
			}
			if yv.sort.K != KInt {
				yv = p.int64ToInt(yv, ysigned)
			}
			return p.intBinop(op, w, signed, xv, yv, yw, ysigned)
		}
		switch op {
		case token.ADD:
			return tb.Add(xv, yv)
		case token.SUB:
			return tb.Sub(xv, yv)
		case token.MUL:
			return tb.Mul(xv, yv)
		case token.QUO, token.REM:
			if !p.branch(tb.Ne(yv, tb.BV(0, w))) {
				p.goPanicf("divide-by-zero", "integer divide by zero")
			}
			if signed {
				if op == token.QUO {
					return tb.Sdiv(xv, yv)
				}
				return tb.Srem(xv, yv)
			}
			if op == token.QUO {
				return tb.Udiv(xv, yv)
			}
			return tb.Urem(xv, yv)
		case token.AND:
			return tb.BvAnd(xv, yv)
		case token.OR:
			return tb.BvOr(xv, yv)
		case token.XOR:
			return tb.BvXor(xv, yv)
		case token.AND_NOT:
			return tb.BvAnd(xv, tb.BvNot(yv))
		case token.SHL, token.SHR:
			yw, ysigned, _ := intInfo(yt)
			if ysigned && !yv.IsConst() {
				if !p.branch(tb.Sle(tb.BV(0, yw), yv)) {
					p.goPanicf("negative-shift", "negative shift amount")
				}
			}
			// bring the count to width w, saturating
			var cnt *Term
			big := tb.False
			switch {
			case yw == w:
				cnt = yv
			case yw < w:
				cnt = tb.Zext(yv, w-yw)
			default:
				big = tb.Not(tb.Ult(yv, tb.BV(uint64(w), yw)))
				cnt = tb.Extract(yv, w-1, 0)
			}
			var r *Term
			switch {
			case op == token.SHL:
				r = tb.Shl(xv, cnt)
			case signed:
				r = tb.Ashr(xv, cnt)
			default:
				r = tb.Lshr(xv, cnt)
			}
			if !big.IsFalse() {
				var sat *Term
				if op == token.SHR && signed {
					sat = tb.Ashr(xv, tb.BV(uint64(w-1), w))
				} else {
					sat = tb.BV(0, w)
				}
				r = tb.Ite(big, sat, r)
			}
			return r
		case token.LSS:
			if signed {
				return tb.Slt(xv, yv)
			}
			return tb.Ult(xv, yv)
		case token.LEQ:
			if signed {
				return tb.Sle(xv, yv)
			}
			return tb.Ule(xv, yv)
		case token.GTR:
			if signed {
				return tb.Slt(yv, xv)
			}
			return tb.Ult(yv, xv)
		case token.GEQ:
			if signed {
				return tb.Sle(yv, xv)
			}
			return tb.Ule(yv, xv)
		}
	case Str:
		yv := y.(Str)
		switch op {
		case token.ADD:
			if xv.sym == nil && yv.sym == nil {
				return Str{b: append(append([]*Term{}, xv.b...), yv.b...)}
			}
			if xv.sym == nil && len(xv.b) == 0 {
				return yv
			}
			if yv.sym == nil && len(yv.b) == 0 {
				return xv
			}
			return Str{sym: &SymStr{kind: "concat", args: []Value{xv, yv}}}
		case token.LSS, token.LEQ, token.GTR, token.GEQ:
			if xv.sym != nil || yv.sym != nil {
				panic(p.unsupported("ordering of structured strings"))
			}
			c := p.bytesCompare(xv.b, yv.b) // BV 8 signed: -1,0,1
			z := tb.BV(0, 8)
			switch op {
			case token.LSS:
				return tb.Slt(c, z)
			case token.LEQ:
				return tb.Sle(c, z)
			case token.GTR:
				return tb.Slt(z, c)
			default:
				return tb.Sle(z, c)
			}
		}
	case SFloat:
		return p.sfloatBinop(op, xv, y)
	case Float:
		if _, ok := y.(SFloat); ok {
			return p.sfloatBinop(op, xv, y)
		}
		yv := y.(Float)
		switch op {
		case token.ADD:
			return Float{xv.f + yv.f}
		case token.SUB:
			return Float{xv.f - yv.f}
		case token.MUL:
			return Float{xv.f * yv.f}
		case token.QUO:
			return Float{xv.f / yv.f}
		case token.LSS:
			return tb.Bool(xv.f < yv.f)
		case token.LEQ:
			return tb.Bool(xv.f <= yv.f)
		case token.GTR:
			return tb.Bool(xv.f > yv.f)
		case token.GEQ:
			return tb.Bool(xv.f >= yv.f)
		}
	}
	panic(p.unsupported(fmt.Sprintf("binop %s on %T", op, x)))
}

// bytesCompare returns an 8-bit signed term: -1, 0, +1 like bytes.Compare.
func (p *Path) bytesCompare(a, b []*Term) *Term {
	tb := p.tb
	n := min(len(a), len(b))
	var tail *Term
	switch {
	case len(a) < len(b):
		tail = tb.BVI(-1, 8)
	case len(a) > len(b):
		tail = tb.BV(1, 8)
	default:
		tail = tb.BV(0, 8)
	}
	r := tail
	for i := n - 1; i >= 0; i-- {
		r = tb.Ite(tb.Eq(a[i], b[i]), r, tb.Ite(tb.Ult(a[i], b[i]), tb.BVI(-1, 8), tb.BV(1, 8)))
	}
	return r
}

func (p *Path) conv(dst, src types.Type, x Value) Value {
	tb := p.tb
	du, su := dst.Underlying(), src.Underlying()
	if dw, dsigned, ok := intInfo(du); ok {
		switch xv := x.(type) {
		case *Term:
			sw, ssigned, ok := intInfo(su)
			if !ok {
				break
			}
			if xv.sort.K == KInt || p.intW(dw) {
				return p.intConv(xv, sw, ssigned, dw, dsigned)
			}
			switch {
			case dw == sw:
				return xv
			case dw < sw:
				return tb.Extract(xv, dw-1, 0)
			case ssigned:
				return tb.Sext(xv, dw-sw)
			default:
				return tb.Zext(xv, dw-sw)
			}
		case Float:
			return p.ic(int64(xv.f), dw)
		}
	}
	if isFloat(du) {
		switch xv := x.(type) {
		case Float:
			if b, ok := du.(*types.Basic); ok && b.Kind() == types.Float32 {
				return Float{float64(float32(xv.f))}
			}
			return xv
		case SFloat:
			if b, ok := du.(*types.Basic); ok && b.Kind() == types.Float32 {
				panic(p.unsupported("symbolic float32"))
			}
			return xv
		case *Term:
			if !xv.IsConst() {
				if b, ok := du.(*types.Basic); ok && b.Kind() == types.Float32 {
					panic(p.unsupported("symbolic float32"))
				}
				sw, ssigned, _ := intInfo(su)
				return p.intToSFloat(xv, sw, ssigned)
			}
			_, signed, _ := intInfo(su)
			if xv.sort.K == KInt {
				f, _ := new(big.Float).SetInt(xv.val).Float64()
				return Float{f}
			}
			if signed {
				f, _ := new(big.Float).SetInt(xv.Signed()).Float64()
				return Float{f}
			}
			f, _ := new(big.Float).SetInt(xv.val).Float64()
			return Float{f}
		}
	}
	if isString(du) {
		switch xv := x.(type) {
		case Str:
			return xv
		case Slice: // []byte or []rune -> string
			if es, ok := su.(*types.Slice); ok {
				if ew, _, _ := intInfo(es.Elem()); ew == 8 {
					if len(xv) == 1 {
						if sb, ok := xv[0].(strBlob); ok {
							return sb.s
						}
					}
					b := make([]*Term, len(xv))
					for i, e := range xv {
						b[i] = e.(*Term)
					}
					return Str{b: b}
				}
			}
		case *Term: // string(rune)
			if xv.IsConst() {
				if xv.sort.K == KInt {
					return p.strConst(string(rune(xv.val.Int64())))
				}
				return p.strConst(string(rune(xv.Signed().Int64())))
			}
		}
	}
	if ds, ok := du.(*types.Slice); ok {
		if xs, ok := x.(Str); ok {
			if xs.sym != nil {
				r, ok := p.renderStr(xs)
				if !ok {
					// abstract byte string: only string(...) of it, equality and storage are supported
					return Slice{strBlob{xs}}
				}
				xs = r
			}
			ew, _, _ := intInfo(ds.Elem())
			if ew == 8 {
				s := make(Slice, len(xs.b))
				for i, b := range xs.b {
					s[i] = b
				}
				return s
			}
			if ew == 32 {
				str, ok := xs.concrete()
				if ok {
					var s Slice
					for _, r := range str {
						s = append(s, p.ic(int64(r), 32))
					}
					return s
				}
			}
		}
		if xs, ok := x.(Slice); ok {
			return xs
		}
	}
	switch du.(type) {
	case *types.Pointer, *types.Signature, *types.Map, *types.Chan, *types.Struct, *types.Array, *types.Interface:
		return x
	}
	if b, ok := du.(*types.Basic); ok && b.Kind() == types.UnsafePointer {
		return x
	}
	panic(p.unsupported(fmt.Sprintf("conversion %s -> %s (%T)", src, dst, x)))
}

var _ = math.MaxInt
var _ = utf8.RuneError

// strBlob: the bytes of a structured string whose rendering is not determined
// (decimal text of a symbolic amount, JSON of an asset record).
type strBlob struct{ s Str }

// jsonBlob: json.Marshal(v) of a value the code later json.Unmarshal's back.
type jsonBlob struct {
	t types.Type
	v Value
}
