package main

// Exponent model of filippo.io/edwards25519: a point is represented by its
// discrete logarithm w.r.t. the generator, a scalar by itself; both are SMT Int
// terms. Identities valid in every commutative ring hold in Z, so completeness
// claims become polynomial identities. Encodings are uninterpreted injective pairs.

import (
	"math/big"

	"golang.org/x/tools/go/ssa"
)

type EC struct{ t *Term }

const edPkg = "filippo.io/edwards25519"

func isECType(t interface{ String() string }) bool {
	s := t.String()
	return s == edPkg+".Point" || s == edPkg+".Scalar"
}

func ecOf(p *Path, v Value) *Term {
	a, _ := v.(Ptr)
	if a == nil {
		p.goPanicf("nil-deref", "nil edwards25519 value")
	}
	return (*a).(EC).t
}

func setEC(p *Path, v Value, t *Term) Value {
	a, _ := v.(Ptr)
	if a == nil {
		p.goPanicf("nil-deref", "nil edwards25519 receiver")
	}
	*a = EC{t}
	return v
}

func newEC(t *Term) Value {
	c := new(Value)
	*c = EC{t}
	return Ptr(c)
}

// ecEncode: UF Int -> 32 bytes.
func (p *Path) ecEncode(kind string, x *Term) Slice {
	tb := p.tb
	app := tb.App(kind+"_enc", SBV(256), x)
	// canonical encodings are injective: enc has a left inverse (instantiated per application)
	p.assertPC(tb.Eq(tb.App(kind+"_encinv", SInt, app), x))
	out := make(Slice, 32)
	for i := 0; i < 32; i++ {
		out[i] = tb.Extract(app, 8*(32-i)-1, 8*(31-i))
	}
	return out
}

// ecDecode: 32 bytes -> (Int, valid Bool). dec(enc(x)) = x by construction;
// otherwise a UF with the axiom enc(dec(b)) = b for valid b.
func (p *Path) ecDecode(kind string, bs Slice) (*Term, *Term) {
	tb := p.tb
	if len(bs) != 32 {
		return tb.Int(0), tb.False
	}
	cat := tb.Concat(termsOf(bs)...)
	if cat.op == OApp && cat.name == kind+"_enc" {
		return cat.args[0], tb.True
	}
	if cat.IsConst() && kind == "sc" {
		// little-endian canonical scalar: concrete value
		le := make([]byte, 32)
		for i := range le {
			le[31-i] = byte(bs[i].(*Term).val.Uint64())
		}
		v := new(big.Int).SetBytes(le)
		l, _ := new(big.Int).SetString("7237005577332262213973186563042994240857116359379907606001950938285454250989", 10)
		if v.Cmp(l) < 0 {
			return tb.IntBig(v), tb.True
		}
		return tb.Int(0), tb.False
	}
	if kind == "sc" {
		// a little-endian scalar whose upper 16 bytes are zero is below the group order: always
		// canonical, and its value is the integer itself (blinding factors of the batch verifier)
		small := true
		for _, b := range bs[16:] {
			if t := b.(*Term); !t.IsConst() || t.val.Sign() != 0 {
				small = false
			}
		}
		if small {
			le := make([]*Term, 16)
			for i := 0; i < 16; i++ {
				le[i] = bs[15-i].(*Term)
			}
			// (an injective uninterpreted value rather than bv2int: mixing bit-vectors into the
			// polynomial identities makes them undecidable in practice)
			c := tb.Concat(le...)
			v := tb.App("sc_small", SInt, c)
			p.assertPC(tb.Eq(tb.App("sc_small_inv", SBV(128), v), c))
			p.assertPC(tb.ILe(tb.Int(0), v))
			return v, tb.True
		}
	}
	x := tb.App(kind+"_dec", SInt, cat)
	valid := tb.App(kind+"_valid", SBool, cat)
	p.assertPC(tb.Implies(valid, tb.Eq(tb.App(kind+"_enc", SBV(256), x), cat)))
	return x, valid
}

func registerECIntrinsics() {
	pt := "(*" + edPkg + ".Point)."
	sc := "(*" + edPkg + ".Scalar)."
	bin := func(f func(p *Path, x, y *Term) *Term) intrinsicFn {
		return func(p *Path, _ *ssa.Function, a []Value) Value {
			return setEC(p, a[0], f(p, ecOf(p, a[1]), ecOf(p, a[2])))
		}
	}
	errIface := func(p *Path, name string) Value {
		eo := p.errSent[name]
		if eo == nil {
			eo = &ErrObj{name: name, msg: p.strConst(name)}
			p.errSent[name] = eo
		}
		return Iface{t: symErrType, v: eo}
	}
	m := map[string]intrinsicFn{
		edPkg + ".NewScalar":         func(p *Path, _ *ssa.Function, a []Value) Value { return newEC(p.tb.Int(0)) },
		edPkg + ".NewIdentityPoint":  func(p *Path, _ *ssa.Function, a []Value) Value { return newEC(p.tb.Int(0)) },
		edPkg + ".NewGeneratorPoint": func(p *Path, _ *ssa.Function, a []Value) Value { return newEC(p.tb.Int(1)) },
		pt + "Set":      func(p *Path, _ *ssa.Function, a []Value) Value { return setEC(p, a[0], ecOf(p, a[1])) },
		sc + "Set":      func(p *Path, _ *ssa.Function, a []Value) Value { return setEC(p, a[0], ecOf(p, a[1])) },
		pt + "Add":      bin(func(p *Path, x, y *Term) *Term { return p.tb.IAdd(x, y) }),
		pt + "Subtract": bin(func(p *Path, x, y *Term) *Term { return p.tb.ISub(x, y) }),
		pt + "Negate":   func(p *Path, _ *ssa.Function, a []Value) Value { return setEC(p, a[0], p.tb.INeg(ecOf(p, a[1]))) },
		pt + "ScalarMult": bin(func(p *Path, x, y *Term) *Term { return p.tb.IMul(x, y) }),
		pt + "ScalarBaseMult": func(p *Path, _ *ssa.Function, a []Value) Value {
			return setEC(p, a[0], ecOf(p, a[1]))
		},
		pt + "MultByCofactor": func(p *Path, _ *ssa.Function, a []Value) Value {
			return setEC(p, a[0], p.tb.IMul(p.tb.Int(8), ecOf(p, a[1])))
		},
		pt + "Equal": func(p *Path, _ *ssa.Function, a []Value) Value {
			return p.tb.Ite(p.tb.Eq(ecOf(p, a[0]), ecOf(p, a[1])), p.tb.BV(1, 64), p.tb.BV(0, 64))
		},
		sc + "Equal": func(p *Path, _ *ssa.Function, a []Value) Value {
			return p.tb.Ite(p.tb.Eq(ecOf(p, a[0]), ecOf(p, a[1])), p.tb.BV(1, 64), p.tb.BV(0, 64))
		},
		pt + "VarTimeDoubleScalarBaseMult": func(p *Path, _ *ssa.Function, a []Value) Value {
			// v = a*A + b*B
			return setEC(p, a[0], p.tb.IAdd(p.tb.IMul(ecOf(p, a[1]), ecOf(p, a[2])), ecOf(p, a[3])))
		},
		pt + "VarTimeMultiScalarMult": func(p *Path, _ *ssa.Function, a []Value) Value {
			ss, ps := a[1].(Slice), a[2].(Slice)
			if len(ss) != len(ps) {
				p.goPanicf("edwards25519", "called VarTimeMultiScalarMult with different size inputs")
			}
			sum := p.tb.Int(0)
			for i := range ss {
				sum = p.tb.IAdd(sum, p.tb.IMul(ecOf(p, ss[i]), ecOf(p, ps[i])))
			}
			return setEC(p, a[0], sum)
		},
		pt + "Bytes": func(p *Path, _ *ssa.Function, a []Value) Value { return p.ecEncode("pt", ecOf(p, a[0])) },
		sc + "Bytes": func(p *Path, _ *ssa.Function, a []Value) Value { return p.ecEncode("sc", ecOf(p, a[0])) },
		pt + "SetBytes": func(p *Path, _ *ssa.Function, a []Value) Value {
			x, valid := p.ecDecode("pt", a[1].(Slice))
			if p.branch(valid) {
				setEC(p, a[0], x)
				return Tuple{a[0], Iface{}}
			}
			return Tuple{Ptr(nil), errIface(p, "edwards25519: invalid point encoding")}
		},
		sc + "SetCanonicalBytes": func(p *Path, _ *ssa.Function, a []Value) Value {
			x, valid := p.ecDecode("sc", a[1].(Slice))
			if p.branch(valid) {
				setEC(p, a[0], x)
				return Tuple{a[0], Iface{}}
			}
			return Tuple{Ptr(nil), errIface(p, "edwards25519: invalid scalar encoding")}
		},
		sc + "SetUniformBytes": func(p *Path, _ *ssa.Function, a []Value) Value {
			bs := a[1].(Slice)
			if len(bs) != 64 {
				return Tuple{Ptr(nil), errIface(p, "edwards25519: invalid SetUniformBytes input length")}
			}
			in := p.tb.Concat(termsOf(bs)...)
			u := p.tb.App("sc_uniform", SInt, in)
			if p.e.cfg.CollisionFree {
				// the wide reduction of distinct digests gives distinct scalars (collisions negligible)
				p.assertPC(p.tb.Eq(p.tb.App("sc_uniform_inv", SBV(512), u), in))
			}
			setEC(p, a[0], u)
			return Tuple{a[0], Iface{}}
		},
		sc + "Add":      bin(func(p *Path, x, y *Term) *Term { return p.tb.IAdd(x, y) }),
		sc + "Subtract": bin(func(p *Path, x, y *Term) *Term { return p.tb.ISub(x, y) }),
		sc + "Multiply": bin(func(p *Path, x, y *Term) *Term { return p.tb.IMul(x, y) }),
		sc + "Negate":   func(p *Path, _ *ssa.Function, a []Value) Value { return setEC(p, a[0], p.tb.INeg(ecOf(p, a[1]))) },
		sc + "MultiplyAdd": func(p *Path, _ *ssa.Function, a []Value) Value {
			return setEC(p, a[0], p.tb.IAdd(p.tb.IMul(ecOf(p, a[1]), ecOf(p, a[2])), ecOf(p, a[3])))
		},
		sc + "Invert": func(p *Path, _ *ssa.Function, a []Value) Value {
			return setEC(p, a[0], p.tb.App("sc_inv", SInt, ecOf(p, a[1])))
		},
	}
	for k, v := range m {
		intrinsics[k] = v
	}
}
