package main

// Long-lived solver processes driven over stdin/stdout.

import (
	"bufio"
	"context"
	"fmt"
	"io"
	"math/big"
	"os"
	"os/exec"
	"strings"
	"time"
)

type SatResult int

const (
	Unsat SatResult = iota
	Sat
	Unknown
)

func (r SatResult) String() string { return [...]string{"unsat", "sat", "unknown"}[r] }

type Solver struct {
	name    string
	cmd     *exec.Cmd
	in      io.WriteCloser
	bw      *bufio.Writer
	out     *bufio.Reader
	defined map[int]bool // composite term ids defined in the current path scope
	declV   map[string]bool
	declF   map[string]bool
	nq      int
	time    time.Duration
	timeout int // ms
	log     *os.File
	dead    bool
	// live mirrors the solver's assertion stack (declarations, definitions, assertions) so that
	// a query the incremental core cannot decide in time can be retried by a fresh one-shot
	// process with full preprocessing; marks are the push points.
	live     []string
	marks    []int
	oneShots int
}

func solverArgv(name string, timeoutMs int) []string {
	switch name {
	case "z3":
		return []string{"z3", "-in", fmt.Sprintf("-t:%d", timeoutMs)}
	case "z3-new":
		return []string{"z3-new", "-in", fmt.Sprintf("-t:%d", timeoutMs)}
	case "cvc5":
		return []string{"cvc5", "--incremental", "--lang=smt2", fmt.Sprintf("--tlimit-per=%d", timeoutMs), "--produce-models"}
	}
	panic("unknown solver " + name)
}

func NewSolver(name string, timeoutMs int, logPath string) (*Solver, error) {
	argv := solverArgv(name, min(timeoutMs, incrementalTimeoutMs))
	cmd := exec.Command(argv[0], argv[1:]...)
	in, err := cmd.StdinPipe()
	if err != nil {
		return nil, err
	}
	out, err := cmd.StdoutPipe()
	if err != nil {
		return nil, err
	}
	cmd.Stderr = cmd.Stdout
	if err := cmd.Start(); err != nil {
		return nil, err
	}
	s := &Solver{name: name, cmd: cmd, in: in, bw: bufio.NewWriterSize(in, 1<<16), out: bufio.NewReaderSize(out, 1<<16), timeout: timeoutMs}
	if logPath != "" {
		s.log, _ = os.Create(logPath)
	}
	s.send("(set-option :produce-models true)")
	if name == "cvc5" {
		s.send("(set-logic ALL)")
	}
	s.send("(push 1)")
	s.resetScope()
	return s, nil
}

func (s *Solver) resetScope() {
	s.defined = map[int]bool{}
	s.declV = map[string]bool{}
	s.declF = map[string]bool{}
}

func (s *Solver) send(line string) {
	if s.log != nil {
		fmt.Fprintln(s.log, line)
	}
	switch {
	case strings.HasPrefix(line, "(push"):
		s.marks = append(s.marks, len(s.live))
	case strings.HasPrefix(line, "(pop"):
		if n := len(s.marks); n > 0 {
			s.live = s.live[:s.marks[n-1]]
			s.marks = s.marks[:n-1]
		}
	case strings.HasPrefix(line, "(check-sat"), strings.HasPrefix(line, "(get-"), strings.HasPrefix(line, "(exit"):
	default:
		s.live = append(s.live, line)
	}
	if _, err := s.bw.WriteString(line); err != nil {
		s.dead = true
	}
	s.bw.WriteByte('\n')
}

func (s *Solver) Close() {
	s.send("(exit)")
	s.bw.Flush()
	s.in.Close()
	done := make(chan struct{})
	go func() { s.cmd.Wait(); close(done) }()
	select {
	case <-done:
	case <-time.After(2 * time.Second):
		s.cmd.Process.Kill()
	}
	if s.log != nil {
		s.log.Close()
	}
}

// NewPath drops everything asserted/declared for the previous path.
func (s *Solver) NewPath() {
	s.send("(pop 1)")
	s.send("(push 1)")
	s.resetScope()
}

// define emits declarations/definitions for t's DAG.
func (s *Solver) define(tb *TB, t *Term) {
	switch t.op {
	case OConst:
		return
	case OVar:
		if !s.declV[t.name] {
			s.declV[t.name] = true
			s.send(fmt.Sprintf("(declare-const %s %s)", t.name, t.sort))
		}
		return
	}
	if s.defined[t.id] {
		return
	}
	// iterative post-order to avoid deep recursion
	type fr struct {
		t *Term
		i int
	}
	stack := []fr{{t, 0}}
	for len(stack) > 0 {
		f := &stack[len(stack)-1]
		if f.i < len(f.t.args) {
			a := f.t.args[f.i]
			f.i++
			switch a.op {
			case OConst:
			case OVar:
				if !s.declV[a.name] {
					s.declV[a.name] = true
					s.send(fmt.Sprintf("(declare-const %s %s)", a.name, a.sort))
				}
			default:
				if !s.defined[a.id] {
					stack = append(stack, fr{a, 0})
				}
			}
			continue
		}
		u := f.t
		stack = stack[:len(stack)-1]
		if s.defined[u.id] {
			continue
		}
		s.defined[u.id] = true
		if u.op == OApp && !s.declF[u.name] {
			s.declF[u.name] = true
			sig := tb.ufs[u.name]
			var as []string
			for _, a := range sig.args {
				as = append(as, a.String())
			}
			if sig.body != "" {
				var ps []string
				for i, a := range sig.args {
					ps = append(ps, fmt.Sprintf("(a%d %s)", i, a))
				}
				s.send(fmt.Sprintf("(define-fun %s (%s) %s %s)", u.name, strings.Join(ps, " "), sig.res, sig.body))
			} else {
				s.send(fmt.Sprintf("(declare-fun %s (%s) %s)", u.name, strings.Join(as, " "), sig.res))
			}
		}
		s.send(fmt.Sprintf("(define-fun t%d () %s %s)", u.id, u.sort, body(u)))
	}
}

func (s *Solver) Assert(tb *TB, t *Term) {
	if t.IsTrue() {
		return
	}
	s.define(tb, t)
	s.send("(assert " + ref(t) + ")")
}

// readResponse reads one s-expression or atom from the solver.
func (s *Solver) readResponse() (string, error) {
	if err := s.bw.Flush(); err != nil {
		s.dead = true
		return "", err
	}
	var sb strings.Builder
	depth := 0
	started := false
	inStr := false
	for {
		c, err := s.out.ReadByte()
		if err != nil {
			s.dead = true
			return sb.String(), err
		}
		if inStr {
			sb.WriteByte(c)
			if c == '"' {
				inStr = false
			}
			continue
		}
		switch c {
		case '"':
			inStr = true
			started = true
			sb.WriteByte(c)
		case '(':
			depth++
			started = true
			sb.WriteByte(c)
		case ')':
			depth--
			sb.WriteByte(c)
			if depth == 0 {
				return sb.String(), nil
			}
		case '\n', '\r', ' ', '\t':
			if started && depth == 0 {
				return sb.String(), nil
			}
			if started {
				sb.WriteByte(' ')
			}
		default:
			started = true
			sb.WriteByte(c)
		}
	}
}

// Check asks whether the current assertions plus extra (may be nil) are satisfiable.
func (s *Solver) Check(tb *TB, extra *Term) (SatResult, string) {
	if s.dead {
		return Unknown, "solver dead"
	}
	start := time.Now()
	s.nq++
	if extra != nil {
		if extra.IsFalse() {
			return Unsat, ""
		}
		s.define(tb, extra)
		if extra.IsTrue() {
			s.send("(check-sat)")
		} else {
			s.send("(check-sat-assuming (" + ref(extra) + "))")
		}
	} else {
		s.send("(check-sat)")
	}
	for {
		r, err := s.readResponse()
		if err != nil {
			s.time += time.Since(start)
			return Unknown, "solver io: " + err.Error()
		}
		switch r {
		case "sat":
			s.time += time.Since(start)
			return Sat, ""
		case "unsat":
			s.time += time.Since(start)
			return Unsat, ""
		case "unknown", "timeout":
			if fr, ok := s.oneShot(extra); ok {
				s.time += time.Since(start)
				return fr, ""
			}
			s.time += time.Since(start)
			return Unknown, r
		}
		if strings.HasPrefix(r, "(error") {
			// an error on check-sat produces no verdict
			s.time += time.Since(start)
			return Unknown, r
		}
		// other noise: ignore
	}
}

// Values evaluates terms in the current model (after a Sat answer with the same assumptions
// asserted: callers use CheckModel).
func (s *Solver) getValues(tb *TB, ts []*Term) ([]*big.Int, error) {
	out := make([]*big.Int, len(ts))
	const chunk = 200
	for i := 0; i < len(ts); i += chunk {
		j := min(i+chunk, len(ts))
		var sb strings.Builder
		sb.WriteString("(get-value (")
		for _, t := range ts[i:j] {
			sb.WriteString(ref(t))
			sb.WriteByte(' ')
		}
		sb.WriteString("))")
		s.send(sb.String())
		r, err := s.readResponse()
		if err != nil {
			return nil, err
		}
		if strings.HasPrefix(r, "(error") {
			return nil, fmt.Errorf("get-value: %s", r)
		}
		vals, err := parseValueList(r)
		if err != nil {
			return nil, err
		}
		if len(vals) != j-i {
			return nil, fmt.Errorf("get-value: got %d values for %d terms: %s", len(vals), j-i, r)
		}
		copy(out[i:j], vals)
	}
	return out, nil
}

// CheckModel: check-sat under extra (asserted in a temporary scope) and return values of ts.
func (s *Solver) CheckModel(tb *TB, extra *Term, ts []*Term) (SatResult, []*big.Int, string) {
	if s.dead {
		return Unknown, nil, "solver dead"
	}
	for _, t := range ts {
		s.define(tb, t)
	}
	if extra != nil {
		s.define(tb, extra)
	}
	s.send("(push 1)")
	defer s.send("(pop 1)")
	if extra != nil {
		s.send("(assert " + ref(extra) + ")")
	}
	r, why := s.Check(tb, nil)
	if r != Sat {
		return r, nil, why
	}
	vals, err := s.getValues(tb, ts)
	if err != nil {
		return Unknown, nil, err.Error()
	}
	return Sat, vals, ""
}

// parseValueList parses "((t v) (t v) ...)" returning the v's as big ints (Bool: 0/1).
func parseValueList(r string) ([]*big.Int, error) {
	p := &sexpParser{s: r}
	top, err := p.parse()
	if err != nil {
		return nil, err
	}
	var out []*big.Int
	for _, pair := range top.list {
		if len(pair.list) != 2 {
			return nil, fmt.Errorf("bad pair in %s", r)
		}
		v, err := sexpValue(pair.list[1])
		if err != nil {
			return nil, fmt.Errorf("%v in %s", err, r)
		}
		out = append(out, v)
	}
	return out, nil
}

type sexp struct {
	atom string
	list []*sexp
	isL  bool
}

type sexpParser struct {
	s string
	i int
}

func (p *sexpParser) parse() (*sexp, error) {
	for p.i < len(p.s) && (p.s[p.i] == ' ' || p.s[p.i] == '\n') {
		p.i++
	}
	if p.i >= len(p.s) {
		return nil, fmt.Errorf("eof")
	}
	if p.s[p.i] == '(' {
		p.i++
		e := &sexp{isL: true}
		for {
			for p.i < len(p.s) && (p.s[p.i] == ' ' || p.s[p.i] == '\n') {
				p.i++
			}
			if p.i >= len(p.s) {
				return nil, fmt.Errorf("eof in list")
			}
			if p.s[p.i] == ')' {
				p.i++
				return e, nil
			}
			c, err := p.parse()
			if err != nil {
				return nil, err
			}
			e.list = append(e.list, c)
		}
	}
	j := p.i
	for j < len(p.s) && p.s[j] != ' ' && p.s[j] != ')' && p.s[j] != '(' && p.s[j] != '\n' {
		j++
	}
	e := &sexp{atom: p.s[p.i:j]}
	p.i = j
	return e, nil
}

func sexpValue(e *sexp) (*big.Int, error) {
	if !e.isL {
		a := e.atom
		switch {
		case a == "true":
			return big.NewInt(1), nil
		case a == "false":
			return big.NewInt(0), nil
		case strings.HasPrefix(a, "#x"):
			v, ok := new(big.Int).SetString(a[2:], 16)
			if !ok {
				return nil, fmt.Errorf("bad hex %s", a)
			}
			return v, nil
		case strings.HasPrefix(a, "#b"):
			v, ok := new(big.Int).SetString(a[2:], 2)
			if !ok {
				return nil, fmt.Errorf("bad bin %s", a)
			}
			return v, nil
		default:
			v, ok := new(big.Int).SetString(a, 10)
			if !ok {
				return nil, fmt.Errorf("bad value %s", a)
			}
			return v, nil
		}
	}
	// (- n) or (_ bvN w)
	if len(e.list) == 2 && e.list[0].atom == "-" {
		v, err := sexpValue(e.list[1])
		if err != nil {
			return nil, err
		}
		return v.Neg(v), nil
	}
	if len(e.list) == 3 && e.list[0].atom == "_" && strings.HasPrefix(e.list[1].atom, "bv") {
		v, ok := new(big.Int).SetString(e.list[1].atom[2:], 10)
		if !ok {
			return nil, fmt.Errorf("bad bv literal")
		}
		return v, nil
	}
	return nil, fmt.Errorf("unsupported value form")
}

// incrementalTimeoutMs bounds a query in the long-lived incremental process; a query that
// exceeds it is retried once by a fresh process (oneShot) under the full timeout.
const incrementalTimeoutMs = 15000

// oneShot decides live-assertions + extra in a fresh non-incremental solver process.
func (s *Solver) oneShot(extra *Term) (SatResult, bool) {
	f, err := os.CreateTemp("", "gosym-oneshot-*.smt2")
	if err != nil {
		return Unknown, false
	}
	defer os.Remove(f.Name())
	w := bufio.NewWriter(f)
	for _, l := range s.live {
		w.WriteString(l)
		w.WriteByte('\n')
	}
	if extra != nil && !extra.IsTrue() {
		w.WriteString("(assert " + ref(extra) + ")\n")
	}
	w.WriteString("(check-sat)\n")
	w.Flush()
	f.Close()
	s.oneShots++
	var argv []string
	switch s.name {
	case "cvc5":
		argv = []string{"cvc5", "--lang=smt2", fmt.Sprintf("--tlimit=%d", s.timeout), f.Name()}
	default:
		argv = []string{s.name, fmt.Sprintf("-T:%d", max(1, s.timeout/1000)), f.Name()}
	}
	ctx, cancel := context.WithTimeout(context.Background(), time.Duration(s.timeout+5000)*time.Millisecond)
	defer cancel()
	out, _ := exec.CommandContext(ctx, argv[0], argv[1:]...).CombinedOutput()
	txt := string(out)
	if strings.Contains(txt, "(error") {
		return Unknown, false
	}
	for _, l := range strings.Split(txt, "\n") {
		switch strings.TrimSpace(l) {
		case "sat":
			return Sat, true
		case "unsat":
			return Unsat, true
		}
	}
	return Unknown, false
}
