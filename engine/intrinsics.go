package main

import (
	"crypto/sha256"
	"crypto/sha512"
	"fmt"
	"go/types"
	"math/big"
	"strings"

	"github.com/zeebo/blake3"
	"golang.org/x/crypto/sha3"
	"golang.org/x/tools/go/ssa"
)

type intrinsicFn func(p *Path, fn *ssa.Function, args []Value) Value

const rtPkg = "github.com/MixinNetwork/mixin/zzrt"

var intrinsics map[string]intrinsicFn

func init() {
	intrinsics = map[string]intrinsicFn{
		rtPkg + ".Bool": func(p *Path, _ *ssa.Function, _ []Value) Value {
			t := p.fresh("in", SBool)
			p.addInput("bool", "", t)
			return t
		},
		rtPkg + ".U8":  func(p *Path, _ *ssa.Function, _ []Value) Value { return p.freshIn("u8", 8) },
		rtPkg + ".U16": func(p *Path, _ *ssa.Function, _ []Value) Value { return p.freshInS("u16", 16, false) },
		rtPkg + ".U32": func(p *Path, _ *ssa.Function, _ []Value) Value { return p.freshInS("u32", 32, false) },
		rtPkg + ".U64": func(p *Path, _ *ssa.Function, _ []Value) Value { return p.freshInS("u64", 64, false) },
		rtPkg + ".Int": func(p *Path, _ *ssa.Function, _ []Value) Value { return p.freshInS("int", 64, true) },
		rtPkg + ".Bytes": func(p *Path, _ *ssa.Function, a []Value) Value {
			n := int(p.concretize(a[0].(*Term), "Bytes(n)"))
			return p.freshBytes(n)
		},
		rtPkg + ".Fill": func(p *Path, _ *ssa.Function, a []Value) Value {
			s := a[0].(Slice)
			f := p.freshBytes(len(s))
			copy(s, f)
			return nil
		},
		rtPkg + ".BigInt": func(p *Path, _ *ssa.Function, a []Value) Value {
			// BigInt(maxBytes): fresh integer 0 <= x < 256^maxBytes (maxBytes<=0: any non-negative)
			n := termInt64(a[0].(*Term))
			t := p.fresh("in", SInt)
			p.addInput("big", "", t)
			p.assertPC(p.tb.ILe(p.tb.Int(0), t))
			if n > 0 {
				p.assertPC(p.tb.ILt(t, p.tb.IntBig(new(big.Int).Lsh(bigOne, uint(8*n)))))
			}
			cell := new(Value)
			*cell = Big{t}
			return Ptr(cell)
		},
		rtPkg + ".BigAny": func(p *Path, _ *ssa.Function, a []Value) Value {
			t := p.fresh("in", SInt)
			p.addInput("sbig", "", t)
			cell := new(Value)
			*cell = Big{t}
			return Ptr(cell)
		},
		rtPkg + ".Choose": func(p *Path, _ *ssa.Function, a []Value) Value {
			lo, hi := int(termInt64(a[0].(*Term))), int(termInt64(a[1].(*Term)))
			v := p.choose(lo, hi)
			p.inputs = append(p.inputs, InputRec{Kind: "choose", Conc: int64(v)})
			return p.ic(int64(v), 64)
		},
		rtPkg + ".Assume": func(p *Path, _ *ssa.Function, a []Value) Value {
			c := a[0].(*Term)
			if c.IsFalse() {
				panic(pathAbort{"prune", "assume false"})
			}
			if !c.IsTrue() {
				if p.feasible(c) == Unsat {
					panic(pathAbort{"prune", "assume infeasible"})
				}
				p.assertPC(c)
			}
			return nil
		},
		rtPkg + ".Assert": func(p *Path, _ *ssa.Function, a []Value) Value {
			lbl, _ := a[1].(Str).concrete()
			p.checkAssert(a[0].(*Term), lbl)
			return nil
		},
		rtPkg + ".Cover": func(p *Path, _ *ssa.Function, a []Value) Value {
			lbl, _ := a[0].(Str).concrete()
			for _, c := range p.covers {
				if c == lbl {
					return nil
				}
			}
			p.covers = append(p.covers, lbl)
			return nil
		},
		rtPkg + ".Tier":      func(p *Path, _ *ssa.Function, _ []Value) Value { return p.ic(int64(p.e.cfg.Tier), 64) },
		rtPkg + ".Replaying": func(p *Path, _ *ssa.Function, _ []Value) Value { return p.tb.False },
		rtPkg + ".Catch": func(p *Path, _ *ssa.Function, a []Value) Value {
			return p.catch(a[0])
		},
		rtPkg + ".UFBytes": func(p *Path, _ *ssa.Function, a []Value) Value {
			name, _ := a[0].(Str).concrete()
			n := int(termInt64(a[1].(*Term)))
			return p.ufBytes(name, n, a[2].(Slice))
		},
		rtPkg + ".UFBool": func(p *Path, _ *ssa.Function, a []Value) Value {
			name, _ := a[0].(Str).concrete()
			r := p.ufBytes(name, 1, a[1].(Slice))
			return p.tb.Ne(r[0].(*Term), p.tb.BV(0, 8))
		},
		rtPkg + ".Concrete": func(p *Path, _ *ssa.Function, a []Value) Value {
			// Concrete(x uint64, max int) uint64: fork over feasible values of x
			v := p.concretize(a[0].(*Term), "Concrete")
			return p.i64(v)
		},
		rtPkg + ".Log": func(p *Path, _ *ssa.Function, a []Value) Value {
			tag, _ := a[0].(Str).concrete()
			p.ghost[tag] = append(p.ghost[tag], copyVal(a[1]))
			return nil
		},
		rtPkg + ".Or":      func(p *Path, _ *ssa.Function, a []Value) Value { return p.tb.Or(a[0].(*Term), a[1].(*Term)) },
		rtPkg + ".And":     func(p *Path, _ *ssa.Function, a []Value) Value { return p.tb.And(a[0].(*Term), a[1].(*Term)) },
		rtPkg + ".Implies": func(p *Path, _ *ssa.Function, a []Value) Value { return p.tb.Implies(a[0].(*Term), a[1].(*Term)) },
		rtPkg + ".Ite64": func(p *Path, _ *ssa.Function, a []Value) Value {
			return p.tb.Ite(a[0].(*Term), a[1].(*Term), a[2].(*Term))
		},
		rtPkg + ".MakeCap": func(p *Path, _ *ssa.Function, a []Value) Value {
			p.makeCap = int(termInt64(a[0].(*Term)))
			return nil
		},
		rtPkg + ".SizedBlob": func(p *Path, _ *ssa.Function, a []Value) Value {
			return Slice{sizedBlob{a[0].(*Term)}}
		},
		rtPkg + ".Observe": func(p *Path, _ *ssa.Function, a []Value) Value {
			return nil
		},

		// ---- bytes
		"bytes.Equal": func(p *Path, _ *ssa.Function, a []Value) Value {
			x, y := a[0].(Slice), a[1].(Slice)
			if bx, by := blobOf(x), blobOf(y); bx != nil || by != nil {
				if bx == nil || by == nil {
					panic(p.unsupported("bytes.Equal of an abstract byte string with plain bytes"))
				}
				return p.blobEqual(bx, by)
			}
			if len(x) != len(y) {
				return p.tb.False
			}
			var c []*Term
			for i := range x {
				c = append(c, p.tb.Eq(x[i].(*Term), y[i].(*Term)))
			}
			return p.tb.And(c...)
		},
		"bytes.Compare": func(p *Path, _ *ssa.Function, a []Value) Value {
			c := p.bytesCompare(termsOf(a[0].(Slice)), termsOf(a[1].(Slice)))
			if p.intW(64) {
				return p.int64ToInt(c, true)
			}
			return p.tb.Sext(c, 56)
		},
		"bytes.Clone": func(p *Path, _ *ssa.Function, a []Value) Value {
			x := a[0].(Slice)
			if x == nil {
				return Slice(nil)
			}
			return append(Slice{}, x...)
		},
		"slices.Clone[[]byte byte]": func(p *Path, _ *ssa.Function, a []Value) Value {
			x := a[0].(Slice)
			if x == nil {
				return Slice(nil)
			}
			return append(Slice{}, x...)
		},

		// ---- errors / fmt
		"errors.New": func(p *Path, _ *ssa.Function, a []Value) Value {
			return Iface{t: symErrType, v: &ErrObj{msg: a[0].(Str)}}
		},
		"fmt.Errorf": func(p *Path, _ *ssa.Function, a []Value) Value {
			eo := &ErrObj{msg: Str{sym: &SymStr{kind: "fmt", args: append([]Value{a[0]}, []Value(a[1].(Slice))...)}}}
			if f, ok := a[0].(Str).concrete(); ok && strings.Contains(f, "%w") {
				for _, x := range a[1].(Slice) {
					if iv, ok := x.(Iface); ok && iv.t == symErrType {
						eo.wrap = iv
					}
				}
			}
			return Iface{t: symErrType, v: eo}
		},
		"fmt.Sprintf": func(p *Path, _ *ssa.Function, a []Value) Value {
			return p.sprintf(a[0].(Str), a[1].(Slice))
		},
		"fmt.Sprint": func(p *Path, _ *ssa.Function, a []Value) Value {
			return Str{sym: &SymStr{kind: "sprint", args: []Value(a[0].(Slice))}}
		},
		"fmt.Println": func(p *Path, _ *ssa.Function, a []Value) Value {
			return Tuple{p.tb.BV(0, 64), Iface{}}
		},
		"fmt.Printf": func(p *Path, _ *ssa.Function, a []Value) Value {
			return Tuple{p.tb.BV(0, 64), Iface{}}
		},
		"errors.Is": func(p *Path, _ *ssa.Function, a []Value) Value {
			x, y := a[0].(Iface), a[1].(Iface)
			for x.t != nil {
				if x.t == y.t && x.v == y.v {
					return p.tb.True
				}
				eo, ok := x.v.(*ErrObj)
				if !ok || eo.wrap == nil {
					break
				}
				x = eo.wrap.(Iface)
			}
			return p.tb.Bool(x.t == nil && y.t == nil)
		},

		// ---- hashes: concrete when the input is concrete, uninterpreted otherwise
		"github.com/MixinNetwork/mixin/crypto.Blake3Hash": func(p *Path, _ *ssa.Function, a []Value) Value {
			return Array(p.hashUF("blake3", a[0].(Slice), 32, func(b []byte) []byte { h := blake3.Sum256(b); return h[:] }))
		},
		// NB: crypto.Sha256Hash is SHA3-256 in this code base
		"github.com/MixinNetwork/mixin/crypto.Sha256Hash": func(p *Path, _ *ssa.Function, a []Value) Value {
			return Array(p.hashUF("sha3_256", a[0].(Slice), 32, func(b []byte) []byte { h := sha3.Sum256(b); return h[:] }))
		},
		"crypto/sha3.Sum256": func(p *Path, _ *ssa.Function, a []Value) Value {
			return Array(p.hashUF("sha3_256", a[0].(Slice), 32, func(b []byte) []byte { h := sha3.Sum256(b); return h[:] }))
		},
		"crypto/sha256.Sum256": func(p *Path, _ *ssa.Function, a []Value) Value {
			return Array(p.hashUF("sha256", a[0].(Slice), 32, func(b []byte) []byte { h := sha256.Sum256(b); return h[:] }))
		},
		"crypto/sha512.Sum512": func(p *Path, _ *ssa.Function, a []Value) Value {
			return Array(p.hashUF("sha512", a[0].(Slice), 64, func(b []byte) []byte { h := sha512.Sum512(b); return h[:] }))
		},
		"golang.org/x/crypto/sha3.Sum256": func(p *Path, _ *ssa.Function, a []Value) Value {
			return Array(p.hashUF("sha3_256", a[0].(Slice), 32, func(b []byte) []byte { h := sha3.Sum256(b); return h[:] }))
		},

		// ---- logger: empty bodies
		"github.com/MixinNetwork/mixin/logger.Printf":   nop,
		"github.com/MixinNetwork/mixin/logger.Println":  nop,
		"github.com/MixinNetwork/mixin/logger.Verbosef": nop,
		"github.com/MixinNetwork/mixin/logger.Debugf":   nop,
		"github.com/MixinNetwork/mixin/logger.Infof":    nop,

		// ---- sync: single-threaded model
		"(*sync.Mutex).Lock":      nop,
		"(*sync.Mutex).Unlock":    nop,
		"(*sync.Mutex).TryLock":   func(p *Path, _ *ssa.Function, _ []Value) Value { return p.tb.True },
		"(*sync.RWMutex).Lock":    nop,
		"(*sync.RWMutex).Unlock":  nop,
		"(*sync.RWMutex).RLock":   nop,
		"(*sync.RWMutex).RUnlock": nop,
		"runtime.Gosched":         nop,
		"runtime.KeepAlive":       nop,
		"time.Sleep":              nop,
		"sort.Slice":              sortSliceIntrinsic,
		"sort.SliceStable":        sortSliceIntrinsic,
	}
	registerBigIntrinsics()
	registerMoreIntrinsics()
}

func nop(p *Path, _ *ssa.Function, _ []Value) Value { return nil }

func intrinsicPrefix(name string) intrinsicFn {
	if cachePrefix != nil && strings.Contains(name, "ristretto/v2.") {
		if f := cachePrefix(name); f != nil {
			return f
		}
	}
	switch {
	case strings.HasPrefix(name, "slices.SortFunc["), strings.HasPrefix(name, "slices.SortStableFunc["):
		return sortFuncIntrinsic
	case strings.HasPrefix(name, "slices.Contains["):
		return func(p *Path, _ *ssa.Function, a []Value) Value {
			var c []*Term
			for _, e := range a[0].(Slice) {
				c = append(c, p.equal(e, a[1]))
			}
			return p.tb.Or(c...)
		}
	}
	return nil
}

// sortFuncIntrinsic: insertion sort calling the real comparison closure symbolically.
func sortFuncIntrinsic(p *Path, _ *ssa.Function, a []Value) Value {
	s := a[0].(Slice)
	cmp := a[1]
	for i := 1; i < len(s); i++ {
		for j := i; j > 0; j-- {
			c := p.callFunction(cmp, []Value{copyVal(s[j-1]), copyVal(s[j])}, nil).(*Term)
			var gt *Term
			if c.sort.K == KInt {
				gt = p.tb.ILt(p.tb.Int(0), c)
			} else {
				gt = p.tb.Slt(p.tb.BV(0, 64), c)
			}
			if !p.branch(gt) {
				break
			}
			s[j-1], s[j] = s[j], s[j-1]
		}
	}
	return nil
}

// sortSliceIntrinsic: sort.Slice(x, less) as insertion sort over the live slice.
func sortSliceIntrinsic(p *Path, _ *ssa.Function, a []Value) Value {
	s := a[0].(Iface).v.(Slice)
	less := a[1]
	for i := 1; i < len(s); i++ {
		for j := i; j > 0; j-- {
			c := p.callFunction(less, []Value{p.i64(uint64(j)), p.i64(uint64(j - 1))}, nil).(*Term)
			if !p.branch(c) {
				break
			}
			s[j-1], s[j] = s[j], s[j-1]
		}
	}
	return nil
}

func termsOf(s Slice) []*Term {
	out := make([]*Term, len(s))
	for i, v := range s {
		out[i] = v.(*Term)
	}
	return out
}

func (p *Path) freshInS(kind string, w int, signed bool) Value {
	if p.intW(w) {
		return p.freshIntVar(kind, w, signed)
	}
	return p.freshIn(kind, w)
}

func (p *Path) freshIn(kind string, w int) Value {
	t := p.fresh("in", SBV(w))
	p.addInput(kind, "", t)
	return t
}

func (p *Path) freshBytes(n int) Slice {
	s := make(Slice, n)
	ts := make([]*Term, n)
	for i := range s {
		t := p.fresh("in", SBV(8))
		s[i] = t
		ts[i] = t
	}
	p.addInput("bytes", "", ts...)
	return s
}

// catch runs f and reports whether it panicked (Go panic of the target program).
func (p *Path) catch(f Value) (res Value) {
	depth := len(p.frames)
	defer func() {
		if r := recover(); r != nil {
			if _, ok := r.(goPanic); ok {
				p.frames = p.frames[:depth]
				res = p.tb.True
				return
			}
			panic(r)
		}
	}()
	p.callFunction(f, nil, nil)
	return p.tb.False
}

// ufBytes applies the uninterpreted function name_<arglens> to the concatenated
// argument bytes and returns n result bytes (recorded as inputs so that a
// model's value for the application is replayable).
func (p *Path) ufBytes(name string, n int, args Slice) Slice {
	tb := p.tb
	var ats []*Term
	var argBytes []*Term
	sig := name
	for _, a := range args {
		bs := termsOf(a.(Slice))
		sig += fmt.Sprintf("_%d", len(bs))
		argBytes = append(argBytes, tb.BV(uint64(len(bs)&0xff), 8)) // length separator (mirrored in rt_replay)
		argBytes = append(argBytes, bs...)
		if len(bs) > 0 {
			ats = append(ats, tb.Concat(bs...))
		}
	}
	app := tb.App("uf_"+sig, SBV(8*n), ats...)
	out := make(Slice, n)
	ts := make([]*Term, n)
	for i := 0; i < n; i++ {
		ts[i] = tb.Extract(app, 8*(n-i)-1, 8*(n-i-1))
		out[i] = ts[i]
	}
	p.inputs = append(p.inputs, InputRec{Kind: "uf", Label: name, Terms: ts, Args: argBytes})
	return out
}

// hashUF: real hash on concrete input, uninterpreted function (per input length) otherwise.
func (p *Path) hashUF(name string, in Slice, n int, real func([]byte) []byte) []Value {
	tb := p.tb
	conc := true
	buf := make([]byte, len(in))
	for i, v := range in {
		t := v.(*Term)
		if !t.IsConst() {
			conc = false
			break
		}
		buf[i] = byte(t.val.Uint64())
	}
	out := make([]Value, n)
	if conc {
		h := real(buf)
		for i := range out {
			out[i] = tb.BV(uint64(h[i]), 8)
		}
		return out
	}
	// Ackermann encoding of the uninterpreted hash: one fresh variable per syntactically
	// distinct argument, with functional consistency (equal arguments => equal digests)
	// asserted against every earlier application of the same function and length.
	var arg *Term
	if len(in) > 0 {
		arg = tb.Concat(termsOf(in)...)
	}
	key := fmt.Sprintf("%s/%d", name, len(in))
	apps, _ := p.extra["hash:"+key].([]hashApp)
	for _, a := range apps {
		if a.arg == arg {
			copy(out, a.out)
			return out
		}
	}
	app := p.fresh("h"+name, SBV(8*n))
	for _, a := range apps {
		if arg != nil {
			p.assertPC(tb.Implies(tb.Eq(a.arg, arg), tb.Eq(a.res, app)))
			if p.e.cfg.CollisionFree {
				// collision-free hash model (opt-in per harness): equal digests only for equal inputs
				p.assertPC(tb.Implies(tb.Eq(a.res, app), tb.Eq(a.arg, arg)))
			}
		}
	}
	if p.e.cfg.CollisionFree {
		// inputs of another length never collide with this one
		for k, v := range p.extra {
			if strings.HasPrefix(k, "hash:"+name+"/") && k != "hash:"+key {
				for _, a := range v.([]hashApp) {
					p.assertPC(tb.Not(tb.Eq(a.res, app)))
				}
			}
		}
	}
	for i := 0; i < n; i++ {
		out[i] = tb.Extract(app, 8*(n-i)-1, 8*(n-i-1))
	}
	p.extra["hash:"+key] = append(apps, hashApp{arg: arg, res: app, out: append([]Value{}, out...)})
	// recorded like a UF application: the native replay answers this hash call with the model's digest
	argBytes := append([]*Term{tb.BV(uint64(len(in)&0xff), 8)}, termsOf(in)...)
	p.inputs = append(p.inputs, InputRec{Kind: "uf", Label: "hash:" + name, Terms: termsOf(Slice(out)), Args: argBytes})
	return out
}

type hashApp struct {
	arg *Term
	res *Term
	out []Value
}

// sprintf: concrete when format and all verbs' args are concrete and simple;
// a structured string otherwise.
func (p *Path) sprintf(format Str, args Slice) Value {
	f, ok := format.concrete()
	if ok && !strings.Contains(f, "%") {
		return format
	}
	// common injective patterns stay structured
	return Str{sym: &SymStr{kind: "fmt", args: append([]Value{format}, []Value(args)...)}}
}

var _ = types.Typ

// termInt64: value of a constant Go-int term in either encoding.
func termInt64(t *Term) int64 {
	if t.sort.K == KInt {
		return t.val.Int64()
	}
	return t.Signed().Int64()
}

func blobOf(s Slice) Value {
	if len(s) == 1 {
		switch s[0].(type) {
		case strBlob, jsonBlob:
			return s[0]
		}
	}
	return nil
}

func (p *Path) blobEqual(x, y Value) *Term {
	switch xv := x.(type) {
	case strBlob:
		if yv, ok := y.(strBlob); ok {
			return p.strEqual(xv.s, yv.s)
		}
	case jsonBlob:
		if yv, ok := y.(jsonBlob); ok && types.Identical(xv.t, yv.t) {
			return p.equal(xv.v, yv.v)
		}
	}
	return p.tb.False
}

// sizedBlob: a byte string of symbolic length whose content is never read.
type sizedBlob struct{ n *Term }
