package main

import (
	"fmt"
	"go/token"
	"go/types"
	"os"
	"path/filepath"
	"strings"

	"golang.org/x/tools/go/packages"
	"golang.org/x/tools/go/ssa"
	"golang.org/x/tools/go/ssa/ssautil"
)

// repoDir is /repo; GOSYM_REPO points the engine at a scratch clone instead (used only by
// tools/seedtest.sh to try seeded changes without touching /repo).
var repoDir = func() string {
	if d := os.Getenv("GOSYM_REPO"); d != "" {
		return d
	}
	return "/repo"
}()
const modPath = "github.com/MixinNetwork/mixin"

type Loaded struct {
	prog  *ssa.Program
	fset  *token.FileSet
	pkgs  map[string]*ssa.Package
	stubs map[string]*ssa.Function
}

// loadProgram loads pkg patterns from /repo with the overlay files
// (relative path in /repo -> file with the content).
func loadProgram(patterns []string, files map[string]string, verifDir string) (*Loaded, error) {
	overlay := map[string][]byte{}
	for rel, src := range files {
		b, err := os.ReadFile(filepath.Join(verifDir, src))
		if err != nil {
			return nil, err
		}
		overlay[filepath.Join(repoDir, rel)] = b
	}
	rt, err := os.ReadFile(filepath.Join(verifDir, "harness/rt/rt_sym.go"))
	if err != nil {
		return nil, err
	}
	overlay[filepath.Join(repoDir, "zzrt/rt.go")] = rt
	fset := token.NewFileSet()
	cfg := &packages.Config{
		Mode:    packages.LoadAllSyntax,
		Dir:     repoDir,
		Fset:    fset,
		Overlay: overlay,
		Env:     append(os.Environ(), "GOFLAGS=-mod=mod", "GOPROXY=off"),
	}
	pkgs, err := packages.Load(cfg, patterns...)
	if err != nil {
		return nil, err
	}
	var errs []string
	packages.Visit(pkgs, nil, func(p *packages.Package) {
		for _, e := range p.Errors {
			// bodiless function declarations in the runtime package are expected
			if strings.Contains(e.Msg, "missing function body") {
				continue
			}
			errs = append(errs, e.Error())
		}
	})
	if len(errs) > 0 {
		if len(errs) > 20 {
			errs = errs[:20]
		}
		return nil, fmt.Errorf("load errors:\n%s", strings.Join(errs, "\n"))
	}
	prog, _ := ssautil.AllPackages(pkgs, ssa.InstantiateGenerics)
	prog.Build()
	l := &Loaded{prog: prog, fset: fset, pkgs: map[string]*ssa.Package{}, stubs: map[string]*ssa.Function{}}
	for _, p := range prog.AllPackages() {
		l.pkgs[p.Pkg.Path()] = p
	}
	// harness models: ZZStub_<Func> or ZZStub_<Type>_<Method> in any mixin package
	for path, p := range l.pkgs {
		if !strings.HasPrefix(path, modPath) {
			continue
		}
		for name, m := range p.Members {
			f, ok := m.(*ssa.Function)
			if !ok || !strings.HasPrefix(name, "ZZStub_") {
				continue
			}
			rest := strings.TrimPrefix(name, "ZZStub_")
			target := ""
			if fn := p.Func(rest); fn != nil {
				target = fn.String()
			} else if i := strings.Index(rest, "_"); i > 0 {
				tn, mn := rest[:i], rest[i+1:]
				if tm, ok := p.Members[tn].(*ssa.Type); ok {
					T := tm.Type()
					for _, recv := range []types.Type{T, types.NewPointer(T)} {
						ms := prog.MethodSets.MethodSet(recv)
						for j := 0; j < ms.Len(); j++ {
							if ms.At(j).Obj().Name() == mn {
								if mf := prog.MethodValue(ms.At(j)); mf != nil && target == "" {
									// only methods declared on exactly this receiver form
									if mf.Synthetic == "" {
										target = mf.String()
									}
								}
							}
						}
					}
				}
			}
			if target == "" {
				return nil, fmt.Errorf("stub %s.%s: no target function", path, name)
			}
			l.stubs[target] = f
		}
	}
	return l, nil
}
