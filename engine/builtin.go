package main

import (
	"fmt"
	"go/types"

	"golang.org/x/tools/go/ssa"
)

// Precomputed is a pseudo function value whose call returns v.
type Precomputed struct{ v Value }

func (p *Path) callBuiltin(fn *ssa.Builtin, args []Value, site ssa.Instruction) Value {
	tb := p.tb
	if fn.Name() == "" { // precomputed result (opaque error methods)
		return args[0]
	}
	switch fn.Name() {
	case "append":
		if len(args) == 1 {
			return args[0]
		}
		s := args[0].(Slice)
		switch t := args[1].(type) {
		case Str:
			if t.sym != nil {
				r, ok := p.renderStr(t)
				if !ok {
					panic(p.unsupported("append of structured string"))
				}
				t = r
			}
			for _, b := range t.b {
				s = append(s, b)
			}
			return s
		case Slice:
			if s == nil && len(t) == 0 {
				return Slice(nil)
			}
			for _, e := range t {
				s = append(s, copyVal(e))
			}
			if s == nil {
				s = Slice{}
			}
			return s
		}
		panic(p.unsupported(fmt.Sprintf("append of %T", args[1])))
	case "copy":
		dst := args[0].(Slice)
		switch src := args[1].(type) {
		case Slice:
			n := min(len(dst), len(src))
			// overlapping copies: go's copy handles memmove semantics
			tmp := make([]Value, n)
			for i := 0; i < n; i++ {
				tmp[i] = copyVal(src[i])
			}
			for i := 0; i < n; i++ {
				storeVal(&dst[i], tmp[i])
			}
			return p.i64(uint64(n))
		case Str:
			if src.sym != nil {
				panic(p.unsupported("copy from structured string"))
			}
			n := min(len(dst), len(src.b))
			for i := 0; i < n; i++ {
				dst[i] = src.b[i]
			}
			return p.i64(uint64(n))
		}
	case "len":
		switch x := args[0].(type) {
		case Slice:
			if len(x) == 1 {
				if sb, ok := x[0].(sizedBlob); ok {
					return sb.n
				}
			}
			return p.i64(uint64(len(x)))
		case Str:
			if x.sym != nil {
				if r, ok := p.renderStr(x); ok {
					return p.i64(uint64(len(r.b)))
				}
				panic(p.unsupported("len of structured string " + x.sym.kind))
			}
			return p.i64(uint64(len(x.b)))
		case *Map:
			return p.i64(uint64(x.len()))
		case Array:
			return p.i64(uint64(len(x)))
		case Ptr:
			if x == nil {
				return p.i64(0)
			}
			return p.i64(uint64(len((*x).(Array))))
		case *Opaque:
			panic(p.unsupported("len of chan"))
		}
	case "cap":
		switch x := args[0].(type) {
		case Slice:
			return p.i64(uint64(cap(x)))
		case Array:
			return p.i64(uint64(len(x)))
		}
	case "delete":
		m := args[0].(*Map)
		if m != nil {
			p.mapDelete(m, args[1])
		}
		return nil
	case "clear":
		switch x := args[0].(type) {
		case *Map:
			if x != nil {
				for i := range x.dead {
					if !x.dead[i] {
						x.dead[i] = true
						x.n--
					}
				}
			}
			return nil
		}
	case "print", "println":
		return nil
	case "min", "max":
		r := args[0].(*Term)
		call := site.(*ssa.Call)
		_, signed, _ := intInfo(call.Type())
		for _, a := range args[1:] {
			at := a.(*Term)
			var lt *Term
			switch {
			case at.sort.K == KInt:
				lt = tb.ILt(at, r)
			case signed:
				lt = tb.Slt(at, r)
			default:
				lt = tb.Ult(at, r)
			}
			if fn.Name() == "max" {
				lt = tb.Not(tb.Or(lt, tb.Eq(at, r)))
			}
			r = tb.Ite(lt, at, r)
		}
		return r
	case "recover":
		// the deferred function is the top frame; its caller is running defers
		if n := len(p.frames); n >= 2 {
			caller := p.frames[n-2]
			if caller.panicking != nil {
				g := caller.panicking
				caller.panicking = nil
				if iv, ok := g.val.(Iface); ok && iv.t != nil {
					return iv
				}
				return Iface{t: symErrType, v: &ErrObj{name: "runtime." + g.site, msg: p.strConst(g.msg)}}
			}
		}
		return Iface{}
	case "ssa:wrapnilchk":
		if a, ok := args[0].(Ptr); ok && a == nil {
			p.goPanicf("nil-deref", "value method called using nil pointer")
		}
		return args[0]
	case "close":
		return nil
	}
	panic(p.unsupported(fmt.Sprintf("builtin %s on %T", fn.Name(), args[0])))
}

var _ = types.Typ
