package main

// Symbolic threads (C12): harness threads started with vr.Go run under a
// scheduler inside vr.Wait. Context switches happen at the visible operations of
// the code under test: sync.Mutex.Lock (and thread start / end). At every such
// point the scheduler forks over the runnable threads; a thread asking for a held
// mutex is not runnable. Memory is sequentially consistent.

import (
	"fmt"
	"strings"

	"golang.org/x/tools/go/ssa"
)

type symThread struct {
	id      int
	fn      Value
	frames  []*frame
	started bool
	done    bool
	wants   Ptr // mutex it is waiting to acquire
	resume  chan struct{}
	failure any
}

type threadState struct {
	threads []*symThread
	cur     *symThread
	yield   chan struct{}
	held    map[Ptr]*symThread
	active  bool
	order   []int
	// preemption-bounded exploration (CHESS style): besides the blocking operations, every
	// struct-field address computation in the code under test is a point where the scheduler
	// may switch to another runnable thread, at most maxPreempts times per path.
	preempts    int
	maxPreempts int
	last        *symThread
}

func (p *Path) ts() *threadState {
	if p.threadsSt == nil {
		p.threadsSt = &threadState{yield: make(chan struct{}), held: map[Ptr]*symThread{}}
	}
	return p.threadsSt
}

func registerThreadIntrinsics() {
	intrinsics[rtPkg+".Go"] = func(p *Path, _ *ssa.Function, a []Value) Value {
		st := p.ts()
		st.threads = append(st.threads, &symThread{id: len(st.threads), fn: a[0], resume: make(chan struct{})})
		return nil
	}
	intrinsics[rtPkg+".Wait"] = func(p *Path, _ *ssa.Function, a []Value) Value {
		p.runThreads()
		return nil
	}
	lock := func(p *Path, _ *ssa.Function, a []Value) Value {
		st := p.threadsSt
		if st == nil || !st.active {
			return nil
		}
		m := a[0].(Ptr)
		t := st.cur
		t.wants = m
		// visible operation: hand control back to the scheduler
		t.frames = p.frames
		st.yield <- struct{}{}
		<-t.resume
		p.frames = t.frames
		// the scheduler resumed us only when the mutex was free
		st.held[m] = t
		t.wants = nil
		return nil
	}
	unlock := func(p *Path, _ *ssa.Function, a []Value) Value {
		st := p.threadsSt
		if st == nil || !st.active {
			return nil
		}
		m := a[0].(Ptr)
		if st.held[m] != st.cur {
			p.goPanicf("unlock", "sync: unlock of unlocked mutex")
		}
		delete(st.held, m)
		return nil
	}
	intrinsics["(*sync.Mutex).Lock"] = lock
	intrinsics["(*sync.Mutex).Unlock"] = unlock
	intrinsics["(*sync.RWMutex).Lock"] = lock
	intrinsics["(*sync.RWMutex).Unlock"] = unlock
}

// preemptionPoint is called before a struct field of the code under test is addressed.
func (p *Path) preemptionPoint(fn *ssa.Function) {
	st := p.threadsSt
	if st == nil || !st.active || st.cur == nil || st.preempts >= st.maxPreempts {
		return
	}
	if fn.Pkg == nil || !strings.HasPrefix(fn.Pkg.Pkg.Path(), modPath) || strings.HasSuffix(fn.Pkg.Pkg.Path(), "/zzrt") {
		return
	}
	for f := fn; f != nil; f = f.Parent() {
		if strings.HasPrefix(f.Name(), "ZZ") {
			return // harness code
		}
	}
	unfinished := 0
	for _, t := range st.threads {
		if !t.done {
			unfinished++
		}
	}
	if unfinished < 2 {
		return
	}
	t := st.cur
	t.frames = p.frames
	st.yield <- struct{}{}
	<-t.resume
	p.frames = t.frames
}

func (p *Path) runThreads() {
	st := p.ts()
	if len(st.threads) == 0 {
		return
	}
	st.active = true
	st.maxPreempts = p.e.cfg.MaxPreempts
	mainFrames := p.frames
	defer func() { st.active = false; p.frames = mainFrames }()
	for {
		var runnable []*symThread
		allDone := true
		for _, t := range st.threads {
			if t.done {
				continue
			}
			allDone = false
			if t.wants != nil && st.held[t.wants] != nil {
				continue // blocked on a held mutex
			}
			runnable = append(runnable, t)
		}
		if allDone {
			break
		}
		if len(runnable) == 0 {
			panic(goPanic{msg: "deadlock: all threads blocked", site: "deadlock", stack: p.stackStrings()})
		}
		k := 0
		// the thread that just yielded at a preemption point (not blocked, not finished)
		cont := -1
		if st.last != nil && !st.last.done && st.last.wants == nil && st.last.started {
			for i, r := range runnable {
				if r == st.last {
					cont = i
				}
			}
		}
		switch {
		case cont >= 0 && st.preempts >= st.maxPreempts:
			k = cont
		case len(runnable) > 1:
			k = p.choose(0, len(runnable)-1)
			p.inputs = append(p.inputs, InputRec{Kind: "sched", Conc: int64(runnable[k].id)})
			if cont >= 0 && k != cont {
				st.preempts++
			}
		}
		t := runnable[k]
		st.last = t
		st.order = append(st.order, t.id)
		st.cur = t
		if !t.started {
			t.started = true
			go func(t *symThread) {
				<-t.resume
				defer func() {
					if r := recover(); r != nil {
						t.failure = r
					}
					t.done = true
					st.yield <- struct{}{}
				}()
				p.frames = nil
				p.callFunction(t.fn, nil, nil)
			}(t)
		}
		t.resume <- struct{}{}
		<-st.yield
		if t.failure != nil {
			f := t.failure
			// let the remaining host goroutines die with the path: they stay parked forever
			// on their resume channel and are garbage once the path is dropped
			panic(f)
		}
	}
	st.cur = nil
	st.threads = nil
}

var _ = fmt.Sprint
