package main

// Interpreter values. Control flow, pointers and shapes are concrete on every
// path; only scalars / bytes / big integers are symbolic terms.

import (
	"fmt"
	"go/types"
	"strings"

	"golang.org/x/tools/go/ssa"
)

type Value any

type (
	Struct []Value // by value: copied on load / store
	Array  []Value
	Slice  []Value // shares backing store exactly like a Go slice
	Tuple  []Value
)

type Ptr = *Value

// Str is a string value: concrete length, symbolic bytes; or an opaque symbolic
// string (sym != nil) that supports only equality / length-free use.
type Str struct {
	b   []*Term
	sym *SymStr
}

// SymStr is a structured string: kind(args...). Equality is structural.
type SymStr struct {
	kind string
	args []Value
}

type Iface struct {
	t types.Type
	v Value
}

type Closure struct {
	fn  *ssa.Function
	env []Value
}

type NilFunc struct{}

// Big is the value of a math/big.Int cell.
type Big struct{ t *Term }

// Float is a concrete float64 (symbolic floats unsupported).
type Float struct{ f float64 }

type Map struct {
	keys []Value
	vals []Value
	dead []bool
	n    int
}

// ErrObj is an opaque error value (errors.New / fmt.Errorf / sentinel globals).
type ErrObj struct {
	name string // sentinel global name or ""
	msg  Str
	wrap Value // wrapped error (Iface) or nil
}

// Opaque is an engine-managed object (kv model, sync.Map, ...).
type Opaque struct {
	kind string
	data any
}

// MapIter / StrIter for Range/Next.
type MapIter struct {
	m *Map
	i int
}
type StrIter struct {
	s Str
	i int
}

var (
	symErrNamed = types.NewNamed(types.NewTypeName(0, nil, "symerror", nil), types.NewStruct(nil, nil), nil)
	symErrType  = types.NewPointer(symErrNamed)
)

func isBigInt(t types.Type) bool {
	n, ok := t.(*types.Named)
	if !ok {
		return false
	}
	o := n.Obj()
	return o.Pkg() != nil && o.Pkg().Path() == "math/big" && o.Name() == "Int"
}

func namedIs(t types.Type, pkg, name string) bool {
	n, ok := types.Unalias(t).(*types.Named)
	if !ok {
		return false
	}
	o := n.Obj()
	return o.Pkg() != nil && o.Pkg().Path() == pkg && o.Name() == name
}

func intInfo(t types.Type) (w int, signed bool, ok bool) {
	b, isB := t.Underlying().(*types.Basic)
	if !isB {
		return 0, false, false
	}
	switch b.Kind() {
	case types.Int8:
		return 8, true, true
	case types.Int16:
		return 16, true, true
	case types.Int32:
		return 32, true, true
	case types.Int64, types.Int, types.UntypedInt, types.UntypedRune:
		return 64, true, true
	case types.Uint8:
		return 8, false, true
	case types.Uint16:
		return 16, false, true
	case types.Uint32:
		return 32, false, true
	case types.Uint64, types.Uint, types.Uintptr:
		return 64, false, true
	}
	return 0, false, false
}

func isFloat(t types.Type) bool {
	b, ok := t.Underlying().(*types.Basic)
	return ok && b.Info()&types.IsFloat != 0
}

func isString(t types.Type) bool {
	b, ok := t.Underlying().(*types.Basic)
	return ok && b.Info()&types.IsString != 0
}

func isBoolT(t types.Type) bool {
	b, ok := t.Underlying().(*types.Basic)
	return ok && b.Info()&types.IsBoolean != 0
}

func (p *Path) zero(t types.Type) Value {
	if isBigInt(t) {
		return Big{p.tb.Int(0)}
	}
	if namedIs(t, edPkg, "Point") || namedIs(t, edPkg, "Scalar") {
		return EC{p.tb.Int(0)}
	}
	switch u := t.Underlying().(type) {
	case *types.Basic:
		if w, _, ok := intInfo(u); ok {
			return p.ic(0, w)
		}
		switch {
		case u.Info()&types.IsBoolean != 0:
			return p.tb.False
		case u.Info()&types.IsString != 0:
			return Str{}
		case u.Info()&types.IsFloat != 0:
			return Float{0}
		case u.Kind() == types.UnsafePointer:
			return Ptr(nil)
		case u.Kind() == types.UntypedNil, u.Kind() == types.Invalid:
			return nil
		}
		panic(p.unsupported("zero of basic " + u.String()))
	case *types.Pointer:
		return Ptr(nil)
	case *types.Slice:
		return Slice(nil)
	case *types.Struct:
		s := make(Struct, u.NumFields())
		for i := range s {
			s[i] = p.zero(u.Field(i).Type())
		}
		return s
	case *types.Array:
		n := int(u.Len())
		if n > 1<<20 {
			panic(p.unsupported("huge array"))
		}
		a := make(Array, n)
		if n > 0 {
			z := p.zero(u.Elem())
			for i := range a {
				a[i] = copyVal(z)
			}
		}
		return a
	case *types.Map:
		return (*Map)(nil)
	case *types.Signature:
		return NilFunc{}
	case *types.Interface:
		return Iface{}
	case *types.Chan:
		return (*Opaque)(nil)
	case *types.Tuple:
		tu := make(Tuple, u.Len())
		for i := range tu {
			tu[i] = p.zero(u.At(i).Type())
		}
		return tu
	}
	panic(p.unsupported("zero of " + t.String()))
}

// copyVal makes an unaliased copy of aggregate values (structs, arrays).
func copyVal(v Value) Value {
	switch v := v.(type) {
	case Struct:
		c := make(Struct, len(v))
		for i, x := range v {
			c[i] = copyVal(x)
		}
		return c
	case Array:
		c := make(Array, len(v))
		for i, x := range v {
			c[i] = copyVal(x)
		}
		return c
	case Tuple:
		c := make(Tuple, len(v))
		for i, x := range v {
			c[i] = copyVal(x)
		}
		return c
	}
	return v
}

// storeVal writes v into *addr, keeping interior pointers into aggregates valid.
func storeVal(addr Ptr, v Value) {
	switch v := v.(type) {
	case Struct:
		if lhs, ok := (*addr).(Struct); ok && len(lhs) == len(v) {
			for i := range lhs {
				storeVal(&lhs[i], v[i])
			}
			return
		}
		*addr = copyVal(v)
	case Array:
		if lhs, ok := (*addr).(Array); ok && len(lhs) == len(v) {
			for i := range lhs {
				storeVal(&lhs[i], v[i])
			}
			return
		}
		*addr = copyVal(v)
	default:
		*addr = v
	}
}

func (p *Path) strConst(s string) Str {
	b := make([]*Term, len(s))
	for i := 0; i < len(s); i++ {
		b[i] = p.tb.BV(uint64(s[i]), 8)
	}
	return Str{b: b}
}

func (s Str) concrete() (string, bool) {
	if s.sym != nil {
		return "", false
	}
	var sb strings.Builder
	for _, t := range s.b {
		if !t.IsConst() {
			return "", false
		}
		sb.WriteByte(byte(t.val.Uint64()))
	}
	return sb.String(), true
}

// equal returns the Bool term for x == y under Go's comparison rules.
func (p *Path) equal(x, y Value) *Term {
	tb := p.tb
	switch x := x.(type) {
	case *Term:
		return tb.Eq(x, y.(*Term))
	case Big:
		return tb.Eq(p.bigInt(x), p.bigInt(y.(Big)))
	case EC:
		return tb.Eq(x.t, y.(EC).t)
	case Float:
		return tb.Bool(x.f == y.(Float).f)
	case Ptr:
		yp, _ := y.(Ptr)
		return tb.Bool(x == yp)
	case Str:
		return p.strEqual(x, y.(Str))
	case Struct:
		ys := y.(Struct)
		var c []*Term
		for i := range x {
			c = append(c, p.equal(x[i], ys[i]))
		}
		return tb.And(c...)
	case Array:
		ys := y.(Array)
		var c []*Term
		for i := range x {
			c = append(c, p.equal(x[i], ys[i]))
		}
		return tb.And(c...)
	case Iface:
		yi, ok := y.(Iface)
		if !ok {
			panic(p.unsupported(fmt.Sprintf("iface compared with %T", y)))
		}
		if x.t == nil || yi.t == nil {
			return tb.Bool(x.t == nil && yi.t == nil)
		}
		if !types.Identical(x.t, yi.t) {
			return tb.False
		}
		return p.equal(x.v, yi.v)
	case *ErrObj:
		ye, _ := y.(*ErrObj)
		return tb.Bool(x == ye)
	case *Map:
		ym, _ := y.(*Map)
		return tb.Bool(x == ym)
	case Slice:
		ys, _ := y.(Slice)
		return tb.Bool(x == nil && ys == nil)
	case NilFunc:
		_, ok := y.(NilFunc)
		return tb.Bool(ok)
	case *ssa.Function, *Closure, *ssa.Builtin:
		_, ok := y.(NilFunc)
		if ok {
			return tb.False
		}
		return tb.Bool(x == y)
	case *Opaque:
		yo, _ := y.(*Opaque)
		return tb.Bool(x == yo)
	case nil:
		return tb.Bool(y == nil)
	}
	panic(p.unsupported(fmt.Sprintf("equality on %T", x)))
}

func (p *Path) strEqual(x, y Str) *Term {
	tb := p.tb
	if x.sym != nil || y.sym != nil {
		if x.sym == nil || y.sym == nil {
			// structured vs plain: decide only when the structured string can be rendered
			a, aok := p.renderStr(x)
			c, cok := p.renderStr(y)
			if aok && cok {
				return p.strEqual(a, c)
			}
			panic(p.unsupported("comparison of structured string " + symName(x, y) + " with plain string"))
		}
		if x.sym.kind != y.sym.kind || len(x.sym.args) != len(y.sym.args) {
			a, aok := p.renderStr(x)
			c, cok := p.renderStr(y)
			if aok && cok {
				return p.strEqual(a, c)
			}
			return tb.False
		}
		var c []*Term
		for i := range x.sym.args {
			c = append(c, p.equal(x.sym.args[i], y.sym.args[i]))
		}
		return tb.And(c...)
	}
	if len(x.b) != len(y.b) {
		return tb.False
	}
	var c []*Term
	for i := range x.b {
		c = append(c, tb.Eq(x.b[i], y.b[i]))
	}
	return tb.And(c...)
}

func symName(x, y Str) string {
	if x.sym != nil {
		return x.sym.kind
	}
	return y.sym.kind
}

// renderStr turns a structured string into a plain one when its rendering is
// determined (hex of bytes: symbolic nibbles are fine).
func (p *Path) renderStr(s Str) (Str, bool) {
	if s.sym == nil {
		return s, true
	}
	switch s.sym.kind {
	case "hex":
		bs := s.sym.args[0].(Str)
		if bs.sym != nil {
			return Str{}, false
		}
		out := make([]*Term, 0, 2*len(bs.b))
		for _, b := range bs.b {
			out = append(out, p.hexDigit(p.tb.Extract(b, 7, 4)), p.hexDigit(p.tb.Extract(b, 3, 0)))
		}
		return Str{b: out}, true
	case "fmt":
		return p.renderFmt(s.sym.args)
	case "concat":
		var out []*Term
		for _, a := range s.sym.args {
			r, ok := p.renderStr(a.(Str))
			if !ok {
				return Str{}, false
			}
			out = append(out, r.b...)
		}
		return Str{b: out}, true
	}
	return Str{}, false
}

func (p *Path) hexDigit(n *Term) *Term {
	tb := p.tb
	n8 := tb.Zext(n, 4)
	return tb.Ite(tb.Ult(n8, tb.BV(10, 8)), tb.Add(n8, tb.BV('0', 8)), tb.Add(n8, tb.BV('a'-10, 8)))
}

func (m *Map) len() int {
	if m == nil {
		return 0
	}
	return m.n
}


// renderFmt renders Sprintf(format, args...) when the format is concrete and every
// verb/argument pair has a determined byte length: %s/%v of strings and of values
// with a String() method rendered as hex, %d/%v of constant integers, %x of bytes.
func (p *Path) renderFmt(args []Value) (Str, bool) {
	f, ok := args[0].(Str).concrete()
	if !ok {
		return Str{}, false
	}
	rest := args[1:]
	var out []*Term
	ai := 0
	for i := 0; i < len(f); i++ {
		c := f[i]
		if c != '%' {
			out = append(out, p.tb.BV(uint64(c), 8))
			continue
		}
		i++
		if i >= len(f) {
			return Str{}, false
		}
		verb := f[i]
		if verb == '%' {
			out = append(out, p.tb.BV('%', 8))
			continue
		}
		if ai >= len(rest) {
			return Str{}, false
		}
		a := rest[ai]
		ai++
		iv, isI := a.(Iface)
		if !isI || iv.t == nil {
			return Str{}, false
		}
		switch v := iv.v.(type) {
		case Str:
			if verb != 's' && verb != 'v' {
				return Str{}, false
			}
			r, ok := p.renderStr(v)
			if !ok {
				return Str{}, false
			}
			out = append(out, r.b...)
		case *Term:
			if !v.IsConst() || (verb != 'd' && verb != 'v') || v.sort.K == KBool {
				return Str{}, false
			}
			_, signed, isInt := intInfo(iv.t)
			if !isInt {
				return Str{}, false
			}
			val := v.val
			if v.sort.K == KBV && signed {
				val = v.Signed()
			}
			out = append(out, p.strConst(val.String()).b...)
		case Array, Slice:
			// value with a String() method (crypto.Hash / Key: hex) or %x of bytes
			var bs []*Term
			if arr, ok := v.(Array); ok {
				for _, e := range arr {
					t, ok := e.(*Term)
					if !ok {
						return Str{}, false
					}
					bs = append(bs, t)
				}
			} else {
				bs = termsOf(v.(Slice))
			}
			hasString := p.e.prog.LookupMethod(iv.t, nil, "String") != nil
			if !(verb == 'x' || ((verb == 's' || verb == 'v') && hasString)) {
				return Str{}, false
			}
			r, _ := p.renderStr(Str{sym: &SymStr{kind: "hex", args: []Value{Str{b: bs}}}})
			out = append(out, r.b...)
		default:
			return Str{}, false
		}
	}
	return Str{b: out}, true
}
