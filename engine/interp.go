package main

// Symbolic interpreter over go/ssa instructions.

import (
	"fmt"
	"go/constant"
	"go/token"
	"go/types"
	"strings"

	"golang.org/x/tools/go/ssa"
)

type deferred struct {
	fn   Value
	args []Value
	site ssa.Instruction
}

type frame struct {
	p       *Path
	fn      *ssa.Function
	regs    []Value
	info    *fnInfo
	block   *ssa.BasicBlock
	prev    *ssa.BasicBlock
	defers  []deferred
	result  Value
	cur     ssa.Instruction
	env     []Value
	panicking *goPanic
}

func (p *Path) initPackages() {
	// run init of the entry's package (transitively, filtered by initPkg)
	if p.e.entry.Pkg != nil {
		p.runInit(p.e.entry.Pkg)
	}
}

func (p *Path) runInit(pkg *ssa.Package) {
	if p.inited[pkg] {
		return
	}
	p.inited[pkg] = true
	if !p.e.initPkg[pkg.Pkg.Path()] {
		return
	}
	if f := pkg.Func("init"); f != nil {
		p.callSSA(f, nil, nil)
	}
}

func (p *Path) global(g *ssa.Global) Ptr {
	if c, ok := p.globals[g]; ok {
		return c
	}
	elem := g.Type().(*types.Pointer).Elem()
	cell := new(Value)
	*cell = p.zero(elem)
	p.globals[g] = cell
	if g.Pkg != nil && !p.e.initPkg[g.Pkg.Pkg.Path()] {
		// uninitialised foreign global: error sentinels are opaque unique errors
		if types.Identical(elem, errorType) {
			name := g.Pkg.Pkg.Path() + "." + g.Name()
			eo := &ErrObj{name: name, msg: p.strConst(name)}
			*cell = Iface{t: symErrType, v: eo}
		} else if !foreignGlobalOK(g) {
			panic(p.unsupported("uninitialised foreign global " + g.String()))
		}
	}
	return cell
}

var errorType = types.Universe.Lookup("error").Type()

func foreignGlobalOK(g *ssa.Global) bool {
	switch g.Pkg.Pkg.Path() + "." + g.Name() {
	case "encoding/binary.BigEndian", "encoding/binary.LittleEndian", bdg + ".DefaultIteratorOptions":
		return true
	}
	return false
}

func (fr *frame) get(v ssa.Value) Value {
	switch v := v.(type) {
	case *ssa.Const:
		return fr.p.constVal(v)
	case *ssa.Global:
		return fr.p.global(v)
	case *ssa.Function:
		return v
	case *ssa.Builtin:
		return v
	}
	i, ok := fr.info.idx[v]
	if !ok {
		panic(fr.p.unsupported(fmt.Sprintf("unbound ssa value %s (%T)", v.Name(), v)))
	}
	return fr.regs[i]
}

type fnInfo struct {
	idx map[ssa.Value]int
	n   int
}

func (e *Engine) fnInfoOf(fn *ssa.Function) *fnInfo {
	if v, ok := e.fnInfos.Load(fn); ok {
		return v.(*fnInfo)
	}
	fi := &fnInfo{idx: map[ssa.Value]int{}}
	add := func(v ssa.Value) {
		fi.idx[v] = fi.n
		fi.n++
	}
	for _, p := range fn.Params {
		add(p)
	}
	for _, f := range fn.FreeVars {
		add(f)
	}
	for _, b := range fn.Blocks {
		for _, ins := range b.Instrs {
			if v, ok := ins.(ssa.Value); ok {
				add(v)
			}
		}
	}
	if fn.Recover != nil {
		for _, ins := range fn.Recover.Instrs {
			if v, ok := ins.(ssa.Value); ok {
				if _, have := fi.idx[v]; !have {
					add(v)
				}
			}
		}
	}
	e.fnInfos.Store(fn, fi)
	return fi
}

func (fr *frame) set(v ssa.Value, x Value) { fr.regs[fr.info.idx[v]] = x }

func (p *Path) constVal(c *ssa.Const) Value {
	if v, ok := p.w.consts[c]; ok {
		return v
	}
	v := p.constVal1(c)
	switch v.(type) {
	case *Term, Str, Float, SFloat:
		p.w.consts[c] = v
	}
	return v
}

func (p *Path) constVal1(c *ssa.Const) Value {
	t := c.Type()
	if c.Value == nil {
		return p.zero(t)
	}
	if w, _, ok := intInfo(t); ok {
		if p.intW(w) {
			bi, _ := new(bigInt).SetString(c.Value.ExactString(), 10)
			if bi != nil {
				return p.tb.IntBig(bi)
			}
		}
		bi, _ := new(bigInt).SetString(c.Value.ExactString(), 10)
		if bi == nil {
			// e.g. rune constants given as floats – fall back
			i64, _ := constant.Int64Val(constant.ToInt(c.Value))
			return p.tb.BVI(i64, w)
		}
		return p.tb.BVBig(bi, w)
	}
	switch {
	case isBoolT(t):
		return p.tb.Bool(constant.BoolVal(c.Value))
	case isString(t):
		return p.strConst(constant.StringVal(c.Value))
	case isFloat(t):
		f, _ := constant.Float64Val(c.Value)
		return Float{f}
	}
	panic(p.unsupported("constant of type " + t.String()))
}

func (p *Path) callFunction(fn Value, args []Value, site ssa.Instruction) Value {
	switch fn := fn.(type) {
	case *ssa.Function:
		return p.callSSA(fn, args, nil)
	case *Closure:
		return p.callSSA(fn.fn, args, fn.env)
	case *ssa.Builtin:
		return p.callBuiltin(fn, args, site)
	case NilFunc:
		p.goPanicf("nil-func", "call of nil function")
	}
	panic(p.unsupported(fmt.Sprintf("call of %T", fn)))
}

func (p *Path) goPanicf(kind, format string, a ...any) {
	site := kind
	if n := len(p.frames); n > 0 {
		site = kind + "@" + p.frames[n-1].fn.String()
	}
	panic(goPanic{msg: fmt.Sprintf(format, a...), site: site, stack: p.stackStrings()})
}

const maxDepth = 400

func (p *Path) callSSA(fn *ssa.Function, args []Value, env []Value) Value {
	name := fn.String()
	if fn.Parent() == nil {
		if st, ok := p.e.stubs[name]; ok && st != fn && !p.inStub(st) {
			return p.callSSA(st, args, nil)
		}
		if in, ok := intrinsics[name]; ok {
			return in(p, fn, args)
		}
		if pfx := intrinsicPrefix(name); pfx != nil {
			return pfx(p, fn, args)
		}
	}
	if fn.Blocks == nil {
		if fn.Synthetic != "" && strings.HasPrefix(fn.Synthetic, "package init") {
			return nil
		}
		panic(p.unsupported("call of external function without body: " + name))
	}
	if fn.Name() == "init" && fn.Pkg != nil && fn.Synthetic == "package initializer" {
		if !p.e.initPkg[fn.Pkg.Pkg.Path()] {
			p.inited[fn.Pkg] = true
			return nil
		}
		p.inited[fn.Pkg] = true
	}
	if len(p.frames) > maxDepth {
		panic(pathAbort{"inconclusive", "unwind: call depth exceeded" + p.where()})
	}
	fi := p.e.fnInfoOf(fn)
	fr := &frame{p: p, fn: fn, regs: make([]Value, fi.n), info: fi, env: env}
	for i, prm := range fn.Params {
		fr.set(prm, args[i])
	}
	for i, fv := range fn.FreeVars {
		fr.set(fv, env[i])
	}
	p.frames = append(p.frames, fr)
	p.fnCount[fn] = len(fn.Blocks)
	fr.block = fn.Blocks[0]
	fr.run()
	p.frames = p.frames[:len(p.frames)-1]
	return fr.result
}

func (p *Path) inStub(st *ssa.Function) bool {
	for _, f := range p.frames {
		if f.fn == st {
			return true
		}
	}
	return false
}

// run executes the frame until return; Go panics of the target unwind through
// runDefers like the real runtime.
func (fr *frame) run() {
	p := fr.p
	for {
		var gp *goPanic
		func() {
			defer func() {
				if r := recover(); r != nil {
					if g, ok := r.(goPanic); ok {
						gp = &g
						return
					}
					panic(r)
				}
			}()
			fr.exec()
		}()
		if gp == nil {
			return
		}
		// target panic: run deferred calls, then continue unwinding or, if recovered, return
		fr.panicking = gp
		// restore frame stack to this frame
		for len(p.frames) > 0 && p.frames[len(p.frames)-1] != fr {
			p.frames = p.frames[:len(p.frames)-1]
		}
		fr.runDefers()
		if fr.panicking != nil {
			g := *fr.panicking
			p.frames = p.frames[:len(p.frames)-1]
			panic(g)
		}
		// recovered: function returns with current named results (via Recover block)
		if fr.fn.Recover != nil {
			fr.block = fr.fn.Recover
			fr.prev = nil
			continue
		}
		fr.result = p.zeroResults(fr.fn)
		return
	}
}

func (p *Path) zeroResults(fn *ssa.Function) Value {
	res := fn.Signature.Results()
	switch res.Len() {
	case 0:
		return nil
	case 1:
		return p.zero(res.At(0).Type())
	}
	return p.zero(res)
}

func (fr *frame) runDefers() {
	for len(fr.defers) > 0 {
		d := fr.defers[len(fr.defers)-1]
		fr.defers = fr.defers[:len(fr.defers)-1]
		func() {
			defer func() {
				if r := recover(); r != nil {
					if g, ok := r.(goPanic); ok {
						fr.panicking = &g // a deferred call panicked: replaces the current panic
						for len(fr.p.frames) > 0 && fr.p.frames[len(fr.p.frames)-1] != fr {
							fr.p.frames = fr.p.frames[:len(fr.p.frames)-1]
						}
						return
					}
					panic(r)
				}
			}()
			fr.p.callFunction(d.fn, d.args, d.site)
		}()
	}
}

func (fr *frame) exec() {
	p := fr.p
	for fr.block != nil {
		blk := fr.block
		// phis first (parallel assignment)
		nphi := 0
		if fr.prev != nil {
			idx := -1
			for i, pr := range blk.Preds {
				if pr == fr.prev {
					idx = i
					break
				}
			}
			var vals []Value
			for _, ins := range blk.Instrs {
				phi, ok := ins.(*ssa.Phi)
				if !ok {
					break
				}
				vals = append(vals, fr.get(phi.Edges[idx]))
				nphi++
			}
			for i := 0; i < nphi; i++ {
				fr.set(blk.Instrs[i].(*ssa.Phi), vals[i])
			}
		}
		jumped := false
		for _, ins := range blk.Instrs[nphi:] {
			p.steps++
			if p.steps > p.e.cfg.MaxSteps {
				panic(pathAbort{"inconclusive", fmt.Sprintf("unwind: step budget %d exceeded%s", p.e.cfg.MaxSteps, p.where())})
			}
			fr.cur = ins
			if p.fnSteps != nil {
				p.fnSteps[fr.fn]++
			}
			if fr.step(ins) {
				jumped = true
				break
			}
		}
		if !jumped {
			panic(p.unsupported("block fell through: " + fr.fn.String()))
		}
	}
}

// step executes one instruction; returns true when control transferred.
func (fr *frame) step(ins ssa.Instruction) bool {
	p := fr.p
	tb := p.tb
	switch ins := ins.(type) {
	case *ssa.DebugRef:
	case *ssa.UnOp:
		fr.set(ins, p.unop(ins, fr.get(ins.X)))
	case *ssa.BinOp:
		fr.set(ins, p.binop(ins.Op, ins.X.Type(), fr.get(ins.X), fr.get(ins.Y), ins.Y.Type()))
	case *ssa.Call:
		fn, args := fr.prepareCall(&ins.Call)
		fr.set(ins, p.callFunction(fn, args, ins))
	case *ssa.ChangeInterface:
		fr.set(ins, fr.get(ins.X))
	case *ssa.ChangeType:
		fr.set(ins, fr.get(ins.X))
	case *ssa.Convert:
		fr.set(ins, p.conv(ins.Type(), ins.X.Type(), fr.get(ins.X)))
	case *ssa.MultiConvert:
		fr.set(ins, p.conv(ins.Type(), ins.X.Type(), fr.get(ins.X)))
	case *ssa.SliceToArrayPointer:
		s := fr.get(ins.X).(Slice)
		n := int(ins.Type().Underlying().(*types.Pointer).Elem().Underlying().(*types.Array).Len())
		if len(s) < n {
			p.goPanicf("slice-to-array", "cannot convert slice with length %d to array of length %d", len(s), n)
		}
		if s == nil {
			fr.set(ins, Ptr(nil))
		} else {
			// the array pointer aliases the slice's backing store
			cell := new(Value)
			*cell = Array(s[:n:n])
			fr.set(ins, Ptr(cell))
		}
	case *ssa.MakeInterface:
		fr.set(ins, Iface{t: ins.X.Type(), v: copyVal(fr.get(ins.X))})
	case *ssa.Extract:
		fr.set(ins, fr.get(ins.Tuple).(Tuple)[ins.Index])
	case *ssa.Slice:
		wid := func(v ssa.Value) Value {
			x := fr.opt(v)
			if x == nil {
				return nil
			}
			return p.asBV64(x, v.Type())
		}
		fr.set(ins, p.sliceOp(ins, fr.get(ins.X), wid(ins.Low), wid(ins.High), wid(ins.Max)))
	case *ssa.Return:
		switch len(ins.Results) {
		case 0:
		case 1:
			fr.result = copyVal(fr.get(ins.Results[0]))
		default:
			res := make(Tuple, len(ins.Results))
			for i, r := range ins.Results {
				res[i] = copyVal(fr.get(r))
			}
			fr.result = res
		}
		fr.block = nil
		return true
	case *ssa.RunDefers:
		fr.runDefers()
		if fr.panicking != nil {
			g := *fr.panicking
			fr.panicking = nil
			panic(g)
		}
	case *ssa.Panic:
		v := fr.get(ins.X)
		panic(goPanic{val: v, msg: "panic: " + p.describe(v), site: "explicit-panic@" + fr.fn.String(), stack: p.stackStrings()})
	case *ssa.Store:
		addr := fr.get(ins.Addr).(Ptr)
		if addr == nil {
			p.goPanicf("nil-deref", "nil pointer dereference (store)")
		}
		storeVal(addr, fr.get(ins.Val))
	case *ssa.If:
		c := fr.get(ins.Cond).(*Term)
		succ := 1
		if p.branch(c) {
			succ = 0
		}
		fr.prev, fr.block = fr.block, fr.block.Succs[succ]
		return true
	case *ssa.Jump:
		fr.prev, fr.block = fr.block, fr.block.Succs[0]
		return true
	case *ssa.Defer:
		fn, args := fr.prepareCall(&ins.Call)
		fr.defers = append(fr.defers, deferred{fn, args, ins})
	case *ssa.Go:
		fn, args := fr.prepareCall(&ins.Call)
		p.goStmt(fn, args)
	case *ssa.Alloc:
		cell := new(Value)
		*cell = p.zero(ins.Type().Underlying().(*types.Pointer).Elem())
		fr.set(ins, Ptr(cell))
	case *ssa.MakeSlice:
		lt := p.asBV64(fr.get(ins.Len), ins.Len.Type())
		if p.makeCap > 0 && !lt.IsConst() {
			// harness-declared bound: declared lengths above the cap are outside the claim
			c := p.leIdx(lt, p.makeCap)
			if p.feasible(c) == Unsat {
				panic(pathAbort{"prune", "make length above declared cap"})
			}
			p.assertPC(c)
		}
		ln := p.concretize(lt, "make len")
		cp := p.concretize(p.asBV64(fr.get(ins.Cap), ins.Cap.Type()), "make cap")
		if int64(ln) < 0 || cp < ln || cp > 1<<24 {
			if int64(ln) < 0 || cp < ln {
				p.goPanicf("makeslice", "makeslice: len out of range")
			}
			panic(p.unsupported(fmt.Sprintf("make of %d elements", cp)))
		}
		elem := ins.Type().Underlying().(*types.Slice).Elem()
		s := make(Slice, cp)
		if cp > 0 {
			z := p.zero(elem)
			for i := range s {
				s[i] = copyVal(z)
			}
		}
		fr.set(ins, s[:ln])
	case *ssa.MakeMap:
		fr.set(ins, &Map{})
	case *ssa.MakeChan:
		fr.set(ins, &Opaque{kind: "chan"})
	case *ssa.Range:
		x := fr.get(ins.X)
		switch x := x.(type) {
		case *Map:
			fr.set(ins, &MapIter{m: x, i: 0})
		case Str:
			fr.set(ins, &StrIter{s: x})
		default:
			panic(p.unsupported(fmt.Sprintf("range over %T", x)))
		}
	case *ssa.Next:
		fr.set(ins, p.next(ins, fr.get(ins.Iter)))
	case *ssa.FieldAddr:
		if p.threadsSt != nil && p.threadsSt.active {
			p.preemptionPoint(fr.fn)
		}
		x := fr.get(ins.X).(Ptr)
		if x == nil {
			p.goPanicf("nil-deref", "nil pointer dereference (field %d)", ins.Field)
		}
		s, ok := (*x).(Struct)
		if !ok {
			panic(p.unsupported(fmt.Sprintf("FieldAddr on %T (%s)", *x, ins.X.Type())))
		}
		fr.set(ins, Ptr(&s[ins.Field]))
	case *ssa.Field:
		fr.set(ins, copyVal(fr.get(ins.X).(Struct)[ins.Field]))
	case *ssa.IndexAddr:
		x := fr.get(ins.X)
		idx := p.asBV64(fr.get(ins.Index), ins.Index.Type())
		switch x := x.(type) {
		case Slice:
			i := p.boundsIndex(idx, len(x))
			fr.set(ins, Ptr(&x[i]))
		case Ptr:
			if x == nil {
				p.goPanicf("nil-deref", "nil pointer dereference (array index)")
			}
			a := (*x).(Array)
			i := p.boundsIndex(idx, len(a))
			fr.set(ins, Ptr(&a[i]))
		default:
			panic(p.unsupported(fmt.Sprintf("IndexAddr on %T", x)))
		}
	case *ssa.Index:
		x := fr.get(ins.X)
		idx := p.asBV64(fr.get(ins.Index), ins.Index.Type())
		switch x := x.(type) {
		case Array:
			fr.set(ins, copyVal(p.readIndex(idx, []Value(x))))
		case Str:
			if x.sym != nil {
				panic(p.unsupported("index of structured string"))
			}
			vs := make([]Value, len(x.b))
			for i, b := range x.b {
				vs[i] = b
			}
			fr.set(ins, p.readIndex(idx, vs))
		default:
			panic(p.unsupported(fmt.Sprintf("Index on %T", x)))
		}
	case *ssa.Lookup:
		fr.set(ins, p.lookup(ins, fr.get(ins.X), fr.get(ins.Index)))
	case *ssa.MapUpdate:
		m := fr.get(ins.Map).(*Map)
		if m == nil {
			p.goPanicf("nil-map", "assignment to entry in nil map")
		}
		p.mapSet(m, fr.get(ins.Key), copyVal(fr.get(ins.Value)))
	case *ssa.TypeAssert:
		fr.set(ins, p.typeAssert(ins, fr.get(ins.X).(Iface)))
	case *ssa.MakeClosure:
		var env []Value
		for _, b := range ins.Bindings {
			env = append(env, fr.get(b))
		}
		fr.set(ins, &Closure{fn: ins.Fn.(*ssa.Function), env: env})
	case *ssa.Select, *ssa.Send:
		panic(p.unsupported("channel operation"))
	default:
		panic(p.unsupported(fmt.Sprintf("instruction %T", ins)))
	}
	_ = tb
	return false
}

func (fr *frame) opt(v ssa.Value) Value {
	if v == nil {
		return nil
	}
	return fr.get(v)
}

func (fr *frame) prepareCall(c *ssa.CallCommon) (Value, []Value) {
	p := fr.p
	v := fr.get(c.Value)
	var fn Value
	var args []Value
	if c.Method == nil {
		fn = v
	} else {
		recv := v.(Iface)
		if recv.t == nil {
			p.goPanicf("nil-deref", "method %s invoked on nil interface", c.Method.Name())
		}
		if recv.t == symErrType {
			// methods of the opaque error type
			eo := recv.v.(*ErrObj)
			switch c.Method.Name() {
			case "Error":
				return &ssa.Builtin{}, []Value{Str{sym: &SymStr{kind: "errtext", args: []Value{eo}}}, builtinRet{}}
			case "Unwrap":
				if eo.wrap != nil {
					return &ssa.Builtin{}, []Value{eo.wrap, builtinRet{}}
				}
				return &ssa.Builtin{}, []Value{Iface{}, builtinRet{}}
			}
			panic(p.unsupported("method " + c.Method.Name() + " on opaque error"))
		}
		if op, ok := recv.v.(*Opaque); ok && op != nil {
			if op.kind == "hasher" {
				var args []Value
				for _, a := range c.Args {
					args = append(args, fr.get(a))
				}
				return &ssa.Builtin{}, []Value{p.hasherCall(op, c.Method.Name(), args), builtinRet{}}
			}
			panic(p.unsupported("interface method " + c.Method.Name() + " on opaque " + op.kind))
		}
		m := p.e.prog.LookupMethod(recv.t, c.Method.Pkg(), c.Method.Name())
		if m == nil {
			panic(p.unsupported(fmt.Sprintf("no method %s on %s", c.Method.Name(), recv.t)))
		}
		fn = m
		args = append(args, recv.v)
	}
	for _, a := range c.Args {
		args = append(args, copyVal(fr.get(a)))
	}
	return fn, args
}

// builtinRet marks a pre-computed call result (see prepareCall for opaque errors).
type builtinRet struct{}

func (p *Path) describe(v Value) string {
	switch v := v.(type) {
	case Iface:
		if v.t == nil {
			return "nil"
		}
		return v.t.String() + ":" + p.describe(v.v)
	case Str:
		if s, ok := v.concrete(); ok {
			return s
		}
		if v.sym != nil {
			return "<" + v.sym.kind + ">"
		}
		return "<symbolic string>"
	case *ErrObj:
		if s, ok := v.msg.concrete(); ok {
			return "error(" + s + ")"
		}
		if v.msg.sym != nil {
			if f, ok := v.msg.sym.args[0].(Str); ok {
				if s, ok := f.concrete(); ok {
					return "error(" + s + ")"
				}
			}
		}
		return "error"
	case *Term:
		return v.String()
	}
	return fmt.Sprintf("%T", v)
}

// asBV64 widens an index / length operand to 64 bits according to its static type
// (unsigned operands zero-extend: `data[67+32*i:]` with a uint16 i above 32767).
func (p *Path) asBV64(v Value, typ ...types.Type) *Term {
	t := v.(*Term)
	if t.sort.K == KInt {
		return t
	}
	if t.sort.K == KBV && t.sort.W < 64 {
		if len(typ) == 1 {
			if _, signed, ok := intInfo(typ[0]); ok && !signed {
				return p.tb.Zext(t, 64-t.sort.W)
			}
		}
		return p.tb.Sext(t, 64-t.sort.W)
	}
	return t
}

// boundsIndex concretises idx and raises the runtime panic when out of range.
func (p *Path) boundsIndex(idx *Term, n int) int {
	inb := p.inRange(idx, n)
	if !p.branch(inb) {
		p.goPanicf("index-out-of-range", "index out of range [%s] with length %d", idx, n)
	}
	return int(p.concretize(idx, "index"))
}

// readIndex reads vs[idx] without forking when elements are scalar terms.
func (p *Path) readIndex(idx *Term, vs []Value) Value {
	tb := p.tb
	n := len(vs)
	inb := p.inRange(idx, n)
	if !p.branch(inb) {
		p.goPanicf("index-out-of-range", "index out of range [%s] with length %d", idx, n)
	}
	if idx.IsConst() {
		return vs[idx.val.Uint64()]
	}
	if n <= 256 {
		if _, ok := vs[0].(*Term); ok {
			r := vs[n-1].(*Term)
			for i := n - 2; i >= 0; i-- {
				r = tb.Ite(p.eqConst(idx, i), vs[i].(*Term), r)
			}
			return r
		}
	}
	return vs[p.concretize(idx, "index")]
}

func (p *Path) sliceOp(ins *ssa.Slice, x, lo, hi, max Value) Value {
	cv := func(v Value, def int) int {
		if v == nil {
			return def
		}
		t := p.asBV64(v)
		if !t.IsConst() {
			// fork on the bounds check first so that out-of-range values panic
			return -2
		}
		if t.val.BitLen() > 40 || t.val.Sign() < 0 {
			return -1
		}
		return int(t.val.Int64())
	}
	var ln, cp int
	var s Slice
	var str Str
	isStr := false
	switch x := x.(type) {
	case Slice:
		s, ln, cp = x, len(x), cap(x)
	case Ptr:
		if x == nil {
			p.goPanicf("nil-deref", "slice of nil array pointer")
		}
		a := (*x).(Array)
		s, ln, cp = Slice(a), len(a), len(a)
	case Str:
		if x.sym != nil {
			panic(p.unsupported("slice of structured string"))
		}
		isStr, str, ln, cp = true, x, len(x.b), len(x.b)
	default:
		panic(p.unsupported(fmt.Sprintf("slice of %T", x)))
	}
	l, h, m := cv(lo, 0), cv(hi, ln), cv(max, cp)
	// symbolic bounds: check range then concretise
	symb := func(v Value, cur int, upper int) int {
		if cur != -2 {
			return cur
		}
		t := p.asBV64(v)
		if !p.branch(p.leIdx(t, upper)) {
			p.goPanicf("slice-bounds", "slice bounds out of range [%s] with capacity %d", t, upper)
		}
		return int(p.concretize(t, "slice bound"))
	}
	m = symb(max, m, cp)
	h = symb(hi, h, m)
	l = symb(lo, l, h)
	if l < 0 || h < l || m < h || m > cp || (isStr && h > ln) {
		p.goPanicf("slice-bounds", "slice bounds out of range [%d:%d:%d] with len %d cap %d", l, h, m, ln, cp)
	}
	if isStr {
		return Str{b: str.b[l:h]}
	}
	if s == nil {
		return Slice(nil)
	}
	return s[l:h:m]
}

func (p *Path) next(ins *ssa.Next, it Value) Value {
	tb := p.tb
	switch it := it.(type) {
	case *MapIter:
		m := it.m
		if m != nil {
			for it.i < len(m.keys) {
				i := it.i
				it.i++
				if !m.dead[i] {
					return Tuple{tb.True, m.keys[i], copyVal(m.vals[i])}
				}
			}
		}
		tt := ins.Type().(*types.Tuple)
		return Tuple{tb.False, p.zero(tt.At(1).Type()), p.zero(tt.At(2).Type())}
	case *StrIter:
		if it.i >= len(it.s.b) {
			return Tuple{tb.False, p.i64(0), p.ic(0, 32)}
		}
		b := it.s.b[it.i]
		if !b.IsConst() {
			// symbolic byte: only ASCII is supported; fork on it
			if !p.branch(tb.Ult(b, tb.BV(0x80, 8))) {
				panic(p.unsupported("range over string with non-ASCII symbolic bytes"))
			}
			i := it.i
			it.i++
			return Tuple{tb.True, p.i64(uint64(i)), p.intConv8(b)}
		}
		s, _ := Str{b: it.s.b[it.i:]}.concretePrefix()
		for i, r := range s {
			_ = i
			n := len(string(r))
			if r == 0xFFFD {
				n = 1
			}
			idx := it.i
			it.i += n
			return Tuple{tb.True, p.i64(uint64(idx)), p.ic(int64(r), 32)}
		}
	}
	panic(p.unsupported(fmt.Sprintf("next on %T", it)))
}

func (s Str) concretePrefix() (string, bool) {
	var sb strings.Builder
	for _, t := range s.b {
		if !t.IsConst() {
			break
		}
		sb.WriteByte(byte(t.val.Uint64()))
	}
	return sb.String(), true
}

func (p *Path) mapFind(m *Map, k Value) int {
	if m == nil {
		return -1
	}
	for i := range m.keys {
		if m.dead[i] {
			continue
		}
		if p.branch(p.equal(m.keys[i], k)) {
			return i
		}
	}
	return -1
}

func (p *Path) mapSet(m *Map, k, v Value) {
	if i := p.mapFind(m, k); i >= 0 {
		m.vals[i] = v
		return
	}
	m.keys = append(m.keys, copyVal(k))
	m.vals = append(m.vals, v)
	m.dead = append(m.dead, false)
	m.n++
}

func (p *Path) mapDelete(m *Map, k Value) {
	if i := p.mapFind(m, k); i >= 0 {
		m.dead[i] = true
		m.n--
	}
}

func (p *Path) lookup(ins *ssa.Lookup, x, k Value) Value {
	switch x := x.(type) {
	case *Map:
		vt := ins.X.Type().Underlying().(*types.Map).Elem()
		i := p.mapFind(x, k)
		var v Value
		if i >= 0 {
			v = copyVal(x.vals[i])
		} else {
			v = p.zero(vt)
		}
		if ins.CommaOk {
			return Tuple{v, p.tb.Bool(i >= 0)}
		}
		return v
	case Str:
		if x.sym != nil {
			panic(p.unsupported("index of structured string"))
		}
		vs := make([]Value, len(x.b))
		for i, b := range x.b {
			vs[i] = b
		}
		return p.readIndex(p.asBV64(k, ins.Index.Type()), vs)
	}
	panic(p.unsupported(fmt.Sprintf("lookup on %T", x)))
}

func (p *Path) typeAssert(ins *ssa.TypeAssert, x Iface) Value {
	ok := false
	var v Value
	at := ins.AssertedType
	if x.t != nil {
		if it, isI := at.Underlying().(*types.Interface); isI {
			if x.t == symErrType {
				ok = it.NumMethods() == 0 || (it.NumMethods() == 1 && it.Method(0).Name() == "Error")
			} else {
				ok = types.Implements(x.t, it)
			}
			v = x
		} else {
			ok = types.Identical(x.t, at)
			v = x.v
		}
	}
	if ins.CommaOk {
		if !ok {
			v = p.zero(at)
		}
		return Tuple{v, p.tb.Bool(ok)}
	}
	if !ok {
		p.goPanicf("type-assert", "interface conversion: %v is not %v", x.t, at)
	}
	return v
}

func (p *Path) goStmt(fn Value, args []Value) {
	panic(p.unsupported("go statement"))
}

var _ = token.NoPos
