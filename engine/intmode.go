package main

// INT mode: Go integers wider than 8 bits are SMT Int terms kept inside their
// type's range; + - * wrap explicitly. Needed because 64-bit bvudiv/bvurem by the
// hour/day constants is out of reach of every installed solver, while the Int
// form is decided instantly. Bytes (8-bit) stay bit-vectors.

import (
	"go/token"
	"go/types"
	"math/big"
)

func (p *Path) intW(w int) bool { return p.e.cfg.IntMode && w > 8 }

// ic: integer constant of a Go type of width w.
func (p *Path) ic(v int64, w int) *Term {
	if p.intW(w) {
		return p.tb.Int(v)
	}
	return p.tb.BVI(v, w)
}

func (p *Path) i64(v uint64) *Term {
	if p.intW(64) {
		return p.tb.IntBig(new(big.Int).SetUint64(v))
	}
	return p.tb.BV(v, 64)
}

func pow2(w int) *big.Int { return new(big.Int).Lsh(bigOne, uint(w)) }

// inRange: 0 <= idx < n for an index term of either encoding.
func (p *Path) inRange(idx *Term, n int) *Term {
	tb := p.tb
	if idx.sort.K == KInt {
		return tb.And(tb.ILe(tb.Int(0), idx), tb.ILt(idx, tb.Int(int64(n))))
	}
	return tb.Ult(idx, tb.BV(uint64(n), 64))
}

// leIdx: 0 <= idx <= n.
func (p *Path) leIdx(idx *Term, n int) *Term {
	tb := p.tb
	if idx.sort.K == KInt {
		return tb.And(tb.ILe(tb.Int(0), idx), tb.ILe(idx, tb.Int(int64(n))))
	}
	return tb.Ule(idx, tb.BV(uint64(n), 64))
}

func (p *Path) eqConst(idx *Term, v int) *Term {
	if idx.sort.K == KInt {
		return p.tb.Eq(idx, p.tb.Int(int64(v)))
	}
	return p.tb.Eq(idx, p.tb.BV(uint64(v), idx.sort.W))
}

// wrap brings an Int result back into the range of a w-bit Go integer.
func (p *Path) wrap(r *Term, w int, signed bool) *Term {
	tb := p.tb
	m := pow2(w)
	if r.IsConst() {
		v := new(big.Int).Mod(r.val, m)
		if signed && v.Cmp(pow2(w-1)) >= 0 {
			v.Sub(v, m)
		}
		return tb.IntBig(v)
	}
	if signed {
		h := tb.IntBig(pow2(w - 1))
		return tb.ISub(tb.IMod(tb.IAdd(r, h), tb.IntBig(m)), h)
	}
	return tb.IMod(r, tb.IntBig(m))
}

// wrap1: result of one addition/subtraction (off by at most one modulus).
func (p *Path) wrap1(r *Term, w int, signed bool) *Term {
	tb := p.tb
	if r.IsConst() {
		return p.wrap(r, w, signed)
	}
	m := tb.IntBig(pow2(w))
	lo, hi := tb.Int(0), tb.IntBig(pow2(w))
	if signed {
		lo, hi = tb.IntBig(new(big.Int).Neg(pow2(w-1))), tb.IntBig(pow2(w-1))
	}
	return tb.Ite(tb.ILt(r, lo), tb.IAdd(r, m), tb.Ite(tb.ILe(hi, r), tb.ISub(r, m), r))
}

func (p *Path) toBV(x *Term, w int) *Term   { return p.tb.Int2Bv(x, w) }
func (p *Path) fromBV(x *Term, signed bool) *Term { return p.int64ToInt(x, signed) }

// intBinop: arithmetic on Int-encoded Go integers.
func (p *Path) intBinop(op token.Token, w int, signed bool, x, y *Term, yw int, ysigned bool) Value {
	tb := p.tb
	switch op {
	case token.ADD:
		return p.wrap1(tb.IAdd(x, y), w, signed)
	case token.SUB:
		return p.wrap1(tb.ISub(x, y), w, signed)
	case token.MUL:
		return p.wrap(tb.IMul(x, y), w, signed)
	case token.QUO, token.REM:
		if !p.branch(tb.Ne(y, tb.Int(0))) {
			p.goPanicf("divide-by-zero", "integer divide by zero")
		}
		if !signed {
			if op == token.QUO {
				return tb.IDiv(x, y)
			}
			return tb.IMod(x, y)
		}
		q := p.iQuo(x, y)
		if op == token.QUO {
			return p.wrap(q, w, true) // MinInt / -1
		}
		return tb.ISub(x, tb.IMul(y, q))
	case token.LSS:
		return tb.ILt(x, y)
	case token.LEQ:
		return tb.ILe(x, y)
	case token.GTR:
		return tb.ILt(y, x)
	case token.GEQ:
		return tb.ILe(y, x)
	case token.SHL, token.SHR:
		if y.IsConst() && y.val.Sign() >= 0 && y.val.IsInt64() {
			c := y.val.Int64()
			if op == token.SHL {
				if c >= int64(w) {
					return tb.Int(0)
				}
				return p.wrap(tb.IMul(x, tb.IntBig(pow2(int(c)))), w, signed)
			}
			if c >= int64(w) {
				c = int64(w) // floor division by 2^w: 0 or -1
			}
			return tb.IDiv(x, tb.IntBig(pow2(int(c)))) // floor (euclidean, positive divisor)
		}
	case token.AND:
		if y.IsConst() && y.val.Sign() >= 0 && new(big.Int).And(y.val, new(big.Int).Add(y.val, bigOne)).Sign() == 0 && !signed {
			return tb.IMod(x, tb.IntBig(new(big.Int).Add(y.val, bigOne))) // mask 2^k-1
		}
	}
	// general fallback through bit-vectors
	xb := p.toBV(x, w)
	var r *Term
	switch op {
	case token.SHL, token.SHR:
		yb := p.toBV(y, w)
		if yw > w { // saturate
			_ = ysigned
		}
		big := tb.Not(tb.And(tb.ILe(tb.Int(0), y), tb.ILt(y, tb.Int(int64(w)))))
		switch {
		case op == token.SHL:
			r = tb.Ite(big, tb.BV(0, w), tb.Shl(xb, yb))
		case signed:
			r = tb.Ite(big, tb.Ashr(xb, tb.BV(uint64(w-1), w)), tb.Ashr(xb, yb))
		default:
			r = tb.Ite(big, tb.BV(0, w), tb.Lshr(xb, yb))
		}
	case token.AND:
		r = tb.BvAnd(xb, p.toBV(y, w))
	case token.OR:
		r = tb.BvOr(xb, p.toBV(y, w))
	case token.XOR:
		r = tb.BvXor(xb, p.toBV(y, w))
	case token.AND_NOT:
		r = tb.BvAnd(xb, tb.BvNot(p.toBV(y, w)))
	default:
		panic(p.unsupported("INT-mode binop " + op.String()))
	}
	return p.fromBV(r, signed)
}

// intConv: conversion between integer types when either side is Int-encoded.
func (p *Path) intConv(x *Term, sw int, ssigned bool, dw int, dsigned bool) *Term {
	tb := p.tb
	// source as mathematical integer
	var v *Term
	if x.sort.K == KInt {
		v = x
	} else {
		v = p.int64ToInt(x, ssigned)
	}
	if !p.intW(dw) { // destination is a bit-vector (8-bit)
		return tb.Int2Bv(v, dw)
	}
	// does the source range fit the destination range?
	fits := false
	switch {
	case !ssigned && !dsigned:
		fits = sw <= dw
	case ssigned && dsigned:
		fits = sw <= dw
	case !ssigned && dsigned:
		fits = sw < dw
	}
	if fits {
		return v
	}
	return p.wrap(v, dw, dsigned)
}

// freshInt: a fresh symbolic Go integer of width w in INT mode.
func (p *Path) freshIntVar(kind string, w int, signed bool) *Term {
	t := p.fresh("in", SInt)
	p.addInput(kind, "", t)
	tb := p.tb
	if signed {
		p.assertPC(tb.And(tb.ILe(tb.IntBig(new(big.Int).Neg(pow2(w-1))), t), tb.ILt(t, tb.IntBig(pow2(w-1)))))
	} else {
		p.assertPC(tb.And(tb.ILe(tb.Int(0), t), tb.ILt(t, tb.IntBig(pow2(w)))))
	}
	return t
}

var _ types.Type

// intConv8: a byte widened to a rune-sized integer.
func (p *Path) intConv8(b *Term) *Term {
	if p.intW(32) {
		return p.tb.Bv2Int(b)
	}
	return p.tb.Zext(b, 24)
}
