package main

// Symbolic float64: an IEEE-754 expression tree over bit-vector leaves. Only predicates
// reach the solver: a comparison becomes a defined SMT function (FloatingPoint theory,
// round-nearest-even) of the leaves, so terms themselves stay Bool/BV/Int.

import (
	"fmt"
	"go/token"
	"hash/fnv"
	"math"
	"strings"
)

type SFloat struct {
	expr   string  // SMT-LIB FP expression over a0..an-1
	leaves []*Term // BV64 leaves
	// ex, when non-nil, is the value itself: an integer of magnitude <= 2^53 (exactly
	// representable), as a signed BV64 or an Int. Arithmetic on exact operands stays in
	// integer arithmetic; the FloatingPoint theory is used only outside that range.
	ex *Term
}

func constFloatExpr(f float64) string {
	return fmt.Sprintf("((_ to_fp 11 53) #x%016x)", math.Float64bits(f))
}

func (p *Path) toSFloat(v Value) SFloat {
	switch x := v.(type) {
	case SFloat:
		return x
	case Float:
		r := SFloat{expr: constFloatExpr(x.f)}
		if x.f == math.Trunc(x.f) && math.Abs(x.f) <= 1<<53 {
			if p.intW(64) {
				r.ex = p.tb.Int(int64(x.f))
			} else {
				r.ex = p.tb.BVI(int64(x.f), 64)
			}
		}
		return r
	}
	panic(p.unsupported(fmt.Sprintf("float operand %T", v)))
}

// intToSFloat converts an integer term of width w (BV or Int-mode) to float64.
func (p *Path) intToSFloat(x *Term, w int, signed bool) SFloat {
	tb := p.tb
	var ex *Term
	if x.sort.K == KInt {
		lim := tb.IntBig(pow2(53))
		if p.branch(tb.And(tb.ILe(tb.INeg(lim), x), tb.ILe(x, lim))) {
			ex = x
		}
	} else {
		x64 := x
		if w < 64 {
			if signed {
				x64 = tb.Sext(x, 64-w)
			} else {
				x64 = tb.Zext(x, 64-w)
			}
		}
		lim := tb.BVBig(pow2(53), 64)
		var c *Term
		if signed {
			c = tb.And(tb.Sle(tb.BvNeg(lim), x64), tb.Sle(x64, lim))
		} else {
			c = tb.Ule(x64, lim)
		}
		if w <= 53 || p.branch(c) {
			ex = x64
		}
	}
	r := p.intToSFloatFP(x, w, signed)
	r.ex = ex
	return r
}

func (p *Path) intToSFloatFP(x *Term, w int, signed bool) SFloat {
	tb := p.tb
	if x.sort.K == KInt {
		x = tb.Int2Bv(x, 64)
	} else if w < 64 {
		if signed {
			x = tb.Sext(x, 64-w)
		} else {
			x = tb.Zext(x, 64-w)
		}
	}
	if signed {
		return SFloat{expr: "((_ to_fp 11 53) RNE a0)", leaves: []*Term{x}}
	}
	return SFloat{expr: "((_ to_fp_unsigned 11 53) RNE a0)", leaves: []*Term{x}}
}

// rebase renames y's leaves after x's.
func joinSFloat(x, y SFloat) (string, string, []*Term) {
	leaves := append([]*Term{}, x.leaves...)
	ye := y.expr
	// rename from the highest index down so a1 does not clobber a10
	for i := len(y.leaves) - 1; i >= 0; i-- {
		idx := -1
		for j, l := range leaves {
			if l == y.leaves[i] {
				idx = j
			}
		}
		if idx < 0 {
			idx = len(leaves)
			leaves = append(leaves, y.leaves[i])
		}
		ye = strings.ReplaceAll(ye, fmt.Sprintf("a%d)", i), fmt.Sprintf("b%d)", idx))
		ye = strings.ReplaceAll(ye, fmt.Sprintf("a%d ", i), fmt.Sprintf("b%d ", idx))
	}
	ye = strings.ReplaceAll(ye, "b", "a")
	return x.expr, ye, leaves
}

func (p *Path) sfloatBinop(op token.Token, xv, yv Value) Value {
	x, y := p.toSFloat(xv), p.toSFloat(yv)
	xe, ye, leaves := joinSFloat(x, y)
	if x.ex != nil && y.ex != nil {
		tb := p.tb
		isInt := x.ex.sort.K == KInt
		switch op {
		case token.ADD, token.SUB:
			var r, ok *Term
			if isInt {
				if op == token.ADD {
					r = tb.IAdd(x.ex, y.ex)
				} else {
					r = tb.ISub(x.ex, y.ex)
				}
				lim := tb.IntBig(pow2(53))
				ok = tb.And(tb.ILe(tb.INeg(lim), r), tb.ILe(r, lim))
			} else {
				if op == token.ADD {
					r = tb.Add(x.ex, y.ex)
				} else {
					r = tb.Sub(x.ex, y.ex)
				}
				lim := tb.BVBig(pow2(53), 64)
				ok = tb.And(tb.Sle(tb.BvNeg(lim), r), tb.Sle(r, lim))
			}
			name := "fp.add"
			if op == token.SUB {
				name = "fp.sub"
			}
			res := SFloat{expr: fmt.Sprintf("(%s RNE %s %s)", name, xe, ye), leaves: leaves}
			if p.branch(ok) {
				res.ex = r
			}
			return res
		case token.LSS, token.LEQ, token.GTR, token.GEQ, token.EQL, token.NEQ:
			a, b := x.ex, y.ex
			lt := func(a, b *Term) *Term {
				if isInt {
					return tb.ILt(a, b)
				}
				return tb.Slt(a, b)
			}
			switch op {
			case token.LSS:
				return lt(a, b)
			case token.GTR:
				return lt(b, a)
			case token.LEQ:
				return tb.Not(lt(b, a))
			case token.GEQ:
				return tb.Not(lt(a, b))
			case token.EQL:
				return tb.Eq(a, b)
			default:
				return tb.Not(tb.Eq(a, b))
			}
		}
	}
	switch op {
	case token.ADD:
		return SFloat{expr: fmt.Sprintf("(fp.add RNE %s %s)", xe, ye), leaves: leaves}
	case token.SUB:
		return SFloat{expr: fmt.Sprintf("(fp.sub RNE %s %s)", xe, ye), leaves: leaves}
	case token.MUL:
		return SFloat{expr: fmt.Sprintf("(fp.mul RNE %s %s)", xe, ye), leaves: leaves}
	case token.QUO:
		return SFloat{expr: fmt.Sprintf("(fp.div RNE %s %s)", xe, ye), leaves: leaves}
	}
	var body string
	switch op {
	case token.LSS:
		body = fmt.Sprintf("(fp.lt %s %s)", xe, ye)
	case token.LEQ:
		body = fmt.Sprintf("(fp.leq %s %s)", xe, ye)
	case token.GTR:
		body = fmt.Sprintf("(fp.gt %s %s)", xe, ye)
	case token.GEQ:
		body = fmt.Sprintf("(fp.geq %s %s)", xe, ye)
	case token.EQL:
		body = fmt.Sprintf("(fp.eq %s %s)", xe, ye)
	case token.NEQ:
		body = fmt.Sprintf("(not (fp.eq %s %s))", xe, ye)
	default:
		panic(p.unsupported("float binop " + op.String()))
	}
	h := fnv.New64a()
	h.Write([]byte(body))
	name := fmt.Sprintf("f64p_%x", h.Sum64())
	if len(leaves) == 0 {
		panic(p.unsupported("constant symbolic float predicate"))
	}
	return p.tb.Defined(name, SBool, body, leaves...)
}

func (p *Path) sfloatAbs(v Value) Value {
	x := p.toSFloat(v)
	r := SFloat{expr: fmt.Sprintf("(fp.abs %s)", x.expr), leaves: x.leaves}
	if x.ex != nil {
		tb := p.tb
		if x.ex.sort.K == KInt {
			r.ex = tb.Ite(tb.ILt(x.ex, tb.Int(0)), tb.INeg(x.ex), x.ex)
		} else {
			r.ex = tb.Ite(tb.Slt(x.ex, tb.BV(0, 64)), tb.BvNeg(x.ex), x.ex)
		}
	}
	return r
}
