package main

// Native replay of solver models against the real build (go test -overlay).

import (
	"context"
	"encoding/json"
	"fmt"
	"go/ast"
	"go/parser"
	"go/printer"
	"go/token"
	"os"
	"os/exec"
	"path/filepath"
	"strings"
	"time"
)

type Replayer struct {
	dir    string
	bin    string
	entry  string
	tier   int
	pkgDir string
	n      int
}

type ReplayOutcome struct {
	Done         bool
	Panic        bool
	PanicMsg     string
	Unrealisable bool
	AssertFails  []string
	Covers       []string
	Tail         string
}

func goEnv() []string {
	env := []string{}
	for _, e := range os.Environ() {
		if strings.HasPrefix(e, "GOFLAGS=") || strings.HasPrefix(e, "GOPROXY=") {
			continue
		}
		env = append(env, e)
	}
	return append(env, "GOFLAGS=-mod=mod", "GOPROXY=off")
}

func NewReplayer(h HSpec, tier int) (*Replayer, error) {
	dir, err := os.MkdirTemp("", "gosym-replay-")
	if err != nil {
		return nil, err
	}
	i := strings.LastIndex(h.Entry, ".")
	pkgDir, entryFn := h.Entry[:i], h.Entry[i+1:]
	r := &Replayer{dir: dir, entry: entryFn, tier: tier, pkgDir: pkgDir}
	replace := map[string]string{
		filepath.Join(repoDir, "zzrt/rt.go"): filepath.Join(verifDir, "harness/rt/rt_replay.go"),
	}
	pkgName := ""
	stubTargets := map[string][]string{} // repo dir -> stub function names
	for rel, src := range h.Files {
		abs := filepath.Join(verifDir, src)
		replace[filepath.Join(repoDir, rel)] = abs
		fset := token.NewFileSet()
		f, err := parser.ParseFile(fset, abs, nil, 0)
		if err != nil {
			return nil, err
		}
		if filepath.Dir(rel) == pkgDir {
			pkgName = f.Name.Name
		}
		for _, d := range f.Decls {
			if fd, ok := d.(*ast.FuncDecl); ok && fd.Recv == nil && strings.HasPrefix(fd.Name.Name, "ZZStub_") {
				stubTargets[filepath.Dir(rel)] = append(stubTargets[filepath.Dir(rel)], fd.Name.Name)
			}
		}
	}
	if pkgName == "" {
		return nil, fmt.Errorf("no harness file in %s", pkgDir)
	}
	// hash applications answer with the model's digests (see harness/auto/crypto_hash_replay.go)
	replace[filepath.Join(repoDir, "crypto/zz_auto_hash_replay.go")] = filepath.Join(verifDir, "harness/auto/crypto_hash_replay.go")
	stubTargets["crypto"] = append(stubTargets["crypto"], "ZZStub_Blake3Hash", "ZZStub_Sha256Hash")
	// rewrite stubbed functions so that the native build uses the same models
	for d, names := range stubTargets {
		if err := rewriteStubs(filepath.Join(repoDir, d), names, dir, replace); err != nil {
			return nil, err
		}
	}
	driver := fmt.Sprintf("package %s\n\nimport (\n\t\"testing\"\n\tzzrt \"%s/zzrt\"\n)\n\nfunc TestZZReplay(t *testing.T) {\n\tzzrt.RunReplay(t, map[string]func(){%q: %s})\n}\n",
		pkgName, modPath, entryFn, entryFn)
	dpath := filepath.Join(dir, "driver_test.go")
	os.WriteFile(dpath, []byte(driver), 0o644)
	replace[filepath.Join(repoDir, pkgDir, "zz_replay_driver_test.go")] = dpath
	ob, _ := json.Marshal(map[string]any{"Replace": replace})
	opath := filepath.Join(dir, "overlay.json")
	os.WriteFile(opath, ob, 0o644)
	r.bin = filepath.Join(dir, "replay.test")
	cmd := exec.Command("go", "test", "-c", "-vet=off", "-overlay", opath, "-o", r.bin, "./"+pkgDir)
	cmd.Dir = repoDir
	cmd.Env = goEnv()
	out, err := cmd.CombinedOutput()
	if err != nil {
		os.RemoveAll(dir)
		s := string(out)
		if len(s) > 2000 {
			s = s[:2000]
		}
		return nil, fmt.Errorf("go test -c: %v: %s", err, s)
	}
	return r, nil
}

func (r *Replayer) Close() { os.RemoveAll(r.dir) }

func (r *Replayer) Run(vals []CexVal) ReplayOutcome {
	r.n++
	p := filepath.Join(r.dir, fmt.Sprintf("cex-%d.json", r.n))
	b, _ := json.Marshal(map[string]any{"values": vals})
	os.WriteFile(p, b, 0o644)
	return r.RunFile(p)
}

func (r *Replayer) RunFile(p string) ReplayOutcome {
	ctx, cancel := context.WithTimeout(context.Background(), 120*time.Second)
	defer cancel()
	cmd := exec.CommandContext(ctx, r.bin, "-test.run", "^TestZZReplay$", "-test.v", "-test.timeout", "100s")
	cmd.Dir = filepath.Join(repoDir, r.pkgDir)
	cmd.Env = append(os.Environ(), "VERIF_CEX="+p, "VERIF_ENTRY="+r.entry, fmt.Sprintf("VERIF_TIER_N=%d", r.tier))
	out, _ := cmd.CombinedOutput()
	var o ReplayOutcome
	lines := strings.Split(string(out), "\n")
	for _, l := range lines {
		l = strings.TrimSpace(l)
		switch {
		case strings.HasPrefix(l, "ZZ-ASSERT-FAIL "):
			o.AssertFails = append(o.AssertFails, strings.TrimPrefix(l, "ZZ-ASSERT-FAIL "))
		case strings.HasPrefix(l, "ZZ-PANIC "):
			o.Panic = true
			o.PanicMsg = strings.TrimPrefix(l, "ZZ-PANIC ")
		case strings.HasPrefix(l, "ZZ-UNREALISABLE"):
			o.Unrealisable = true
			o.Tail += l + "; "
		case strings.HasPrefix(l, "ZZ-COVERS "):
			c := strings.TrimPrefix(l, "ZZ-COVERS ")
			if c != "" {
				o.Covers = strings.Split(c, ",")
			}
		case l == "ZZ-COVERS":
		case l == "ZZ-DONE":
			o.Done = true
		case strings.HasPrefix(l, "ZZ-NOTE"):
			o.Tail += l + "; "
		case strings.HasPrefix(l, "ZZ-REPLAY-ERROR"), strings.HasPrefix(l, "panic:"), strings.HasPrefix(l, "fatal error"):
			o.Tail += l + "; "
		}
	}
	if o.Panic {
		o.Tail += "panic: " + o.PanicMsg
	}
	if !o.Done && o.Tail == "" {
		n := len(lines)
		o.Tail = strings.Join(lines[max(0, n-6):], " | ")
	}
	return o
}

// rewriteStubs renames the targets of ZZStub_* models in the package at dir and
// adds forwarding wrappers, writing modified copies into scratch and the overlay map.
func rewriteStubs(dir string, stubs []string, scratch string, replace map[string]string) error {
	fset := token.NewFileSet()
	pkgs, err := parser.ParseDir(fset, dir, func(fi os.FileInfo) bool { return !strings.HasSuffix(fi.Name(), "_test.go") }, parser.ParseComments)
	if err != nil {
		return err
	}
	want := map[string]string{} // "Func" or "Type.Method" -> stub name
	for _, s := range stubs {
		rest := strings.TrimPrefix(s, "ZZStub_")
		want[rest] = s
	}
	done := map[string]bool{}
	for _, pkg := range pkgs {
		for fname, f := range pkg.Files {
			changed := false
			var extra []string
			for _, d := range f.Decls {
				fd, ok := d.(*ast.FuncDecl)
				if !ok || fd.Body == nil {
					continue
				}
				key := fd.Name.Name
				recvExpr := ""
				if fd.Recv != nil && len(fd.Recv.List) == 1 {
					t := fd.Recv.List[0].Type
					if st, ok := t.(*ast.StarExpr); ok {
						t = st.X
					}
					if id, ok := t.(*ast.Ident); ok {
						key = id.Name + "_" + fd.Name.Name
					}
					var sb strings.Builder
					printer.Fprint(&sb, fset, fd.Recv.List[0].Type)
					recvExpr = sb.String()
				}
				stub, ok := want[key]
				if !ok || done[key] {
					continue
				}
				done[key] = true
				changed = true
				// build wrapper text
				var params, args []string
				n := 0
				if fd.Recv != nil {
					args = append(args, "zzrecv")
				}
				variadic := false
				for _, fl := range fd.Type.Params.List {
					var sb strings.Builder
					printer.Fprint(&sb, fset, fl.Type)
					names := fl.Names
					if len(names) == 0 {
						names = []*ast.Ident{ast.NewIdent("_")}
					}
					for range names {
						pn := fmt.Sprintf("zza%d", n)
						n++
						params = append(params, pn+" "+sb.String())
						if _, isV := fl.Type.(*ast.Ellipsis); isV {
							variadic = true
							args = append(args, pn+"...")
						} else {
							args = append(args, pn)
						}
					}
				}
				_ = variadic
				res := ""
				if fd.Type.Results != nil && len(fd.Type.Results.List) > 0 {
					var rs []string
					for _, fl := range fd.Type.Results.List {
						var sb strings.Builder
						printer.Fprint(&sb, fset, fl.Type)
						k := len(fl.Names)
						if k == 0 {
							k = 1
						}
						for i := 0; i < k; i++ {
							rs = append(rs, sb.String())
						}
					}
					res = " (" + strings.Join(rs, ", ") + ")"
				}
				recv := ""
				if fd.Recv != nil {
					recv = "(zzrecv " + recvExpr + ") "
				}
				ret := "return "
				if fd.Type.Results == nil || len(fd.Type.Results.List) == 0 {
					ret = ""
				}
				extra = append(extra, fmt.Sprintf("func %s%s(%s)%s { %s%s(%s) }\n", recv, fd.Name.Name, strings.Join(params, ", "), res, ret, stub, strings.Join(args, ", ")))
				fd.Name = ast.NewIdent(fd.Name.Name + "__zzreal")
				fd.Doc = nil
			}
			if changed {
				var sb strings.Builder
				if err := printer.Fprint(&sb, fset, f); err != nil {
					return err
				}
				sb.WriteString("\n")
				for _, e := range extra {
					sb.WriteString(e)
				}
				out := filepath.Join(scratch, "rw_"+strings.ReplaceAll(strings.TrimPrefix(fname, "/"), "/", "_"))
				if err := os.WriteFile(out, []byte(sb.String()), 0o644); err != nil {
					return err
				}
				replace[fname] = out
			}
		}
	}
	for k, s := range want {
		if !done[k] {
			return fmt.Errorf("stub %s: target %s not found in %s", s, k, dir)
		}
	}
	return nil
}

func cmdReplay(path string) int {
	b, err := os.ReadFile(path)
	if err != nil {
		fmt.Println("ERROR", err)
		return 2
	}
	var c struct {
		Property string   `json:"property"`
		Harness  string   `json:"harness"`
		Tier     string   `json:"tier"`
		Kind     string   `json:"kind"`
		Label    string   `json:"label"`
		Site     string   `json:"site"`
		Values   []CexVal `json:"values"`
	}
	if err := json.Unmarshal(b, &c); err != nil {
		fmt.Println("ERROR", err)
		return 2
	}
	spec, err := loadSpec(c.Property)
	if err != nil {
		fmt.Println("ERROR", err)
		return 2
	}
	for _, h := range spec.Harnesses {
		if h.Name != c.Harness {
			continue
		}
		rp, err := NewReplayer(h, tierIndex(c.Tier))
		if err != nil {
			fmt.Println("ERROR", err)
			return 2
		}
		defer rp.Close()
		out := rp.Run(c.Values)
		fmt.Printf("replay of %s/%s (%s %s): panic=%v %q assert-fails=%v covers=%v unrealisable=%v %s\n", c.Property, c.Harness, c.Kind, c.Site, out.Panic, out.PanicMsg, out.AssertFails, out.Covers, out.Unrealisable, out.Tail)
		if (c.Kind == "panic" && out.Panic) || (c.Kind == "assert" && contains(out.AssertFails, c.Label)) {
			fmt.Printf("VIOLATION property=%s replay=%s (reproduced natively)\n", c.Property, path)
			return 1
		}
		fmt.Println("not reproduced")
		return 0
	}
	fmt.Println("ERROR harness not found")
	return 2
}
