#!/bin/bash
# tools/seedtest.sh <seed-dir> <PROP> [tier] : try a seeded change on a scratch clone of /repo
# (GOSYM_REPO), run the check against it, remove the clone. /repo itself is not touched.
set -u
d=$(realpath $1); prop=$2; tier=${3:-quick}
cd /verif
scratch=$(mktemp -d /tmp/seedrepo.XXXXXX)
git -C /repo worktree add --detach "$scratch/repo" HEAD >/dev/null 2>&1 || { echo "worktree failed"; exit 3; }
git -C "$scratch/repo" apply "$d/patch.diff" || { echo "patch does not apply"; git -C /repo worktree remove --force "$scratch/repo"; exit 3; }
GOSYM_REPO="$scratch/repo" GOSYM_EVIDENCE_DIR="$scratch/evidence" timeout 3000 ./bin/gosym check $prop $tier > /tmp/seedtest.$prop.$$.out 2>&1
rc=$?
git -C /repo worktree remove --force "$scratch/repo"; rm -rf "$scratch"
echo "seed=$1 prop=$prop tier=$tier exit=$rc"
grep -E "^VIOLATION|^RESULT|^INCONCLUSIVE|^KNOWN-FINDING" /tmp/seedtest.$prop.$$.out | cut -c1-400 | head -8
rm -f /tmp/seedtest.$prop.$$.out
