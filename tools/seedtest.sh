#!/bin/bash
# tools/seedtest.sh <seed-dir> <PROP> [tier]  : apply a seeded change to /repo, run the check, undo.
set -u
d=$1; prop=$2; tier=${3:-quick}
cd /verif
if ! git -C /repo diff --quiet; then echo "repo dirty"; exit 3; fi
git -C /repo apply "$(realpath $d)/patch.diff" || { echo "patch does not apply"; exit 3; }
timeout 3000 ./check $prop $tier > /tmp/seedtest.$prop.out 2>&1
rc=$?
git -C /repo checkout -- .
echo "seed=$d prop=$prop tier=$tier exit=$rc"
grep -E "^VIOLATION|^RESULT|^INCONCLUSIVE|^KNOWN-FINDING" /tmp/seedtest.$prop.out | cut -c1-400 | head -12
