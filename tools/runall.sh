#!/bin/bash
# tools/runall.sh [tier] : run every claimed check sequentially, one line per result in /verif/evidence/runall.<tier>.log
tier=${1:-quick}
cd /verif
if [ "$tier" = thorough ]; then export GOSYM_EVIDENCE_DIR=/verif/evidence/thorough; mkdir -p $GOSYM_EVIDENCE_DIR; fi
only=${RUNALL_ONLY:-}
log=evidence/runall.$tier${RUNALL_TAG:-}.log
: > $log
for id in ${only:-$(python3 -c "import json;print(' '.join(c['property_id'] for c in json.load(open('MANIFEST.json'))['checks']))")}; do
  s=$(date +%s)
  out=$(timeout ${RUNALL_TIMEOUT:-3600} ./check $id $tier 2>&1); rc=$?
  e=$(( $(date +%s) - s ))
  echo "$id exit=$rc ${e}s $(echo "$out" | grep -E '^RESULT' | cut -c1-160)" >> $log
  echo "$out" | grep -E '^VIOLATION|^INCONCLUSIVE|^KNOWN-FINDING' | cut -c1-300 | sed "s/^/    /" >> $log
done
echo DONE >> $log
