#!/usr/bin/env python3
"""Regenerate section 9 of DESIGN.md from tools/design_sec9.md, harness/specs, seeded/RESULTS.md, MANIFEST.json."""
import json, glob, os, re
V='/verif'
props=[json.loads(l) for l in open(f'{V}/properties.jsonl')]
man=json.load(open(f'{V}/MANIFEST.json'))
claimed={c['property_id'] for c in man['checks']}
rows=['| id | harness | decides | quick bound | thorough bound | stubs / assumptions |','|---|---|---|---|---|---|']
for p in props:
    sp=f'{V}/harness/specs/{p["id"]}.json'
    if p['id'] not in claimed or not os.path.exists(sp): continue
    s=json.load(open(sp))
    for h in s['harnesses']:
        b=h.get('bounds',{})
        sa='; '.join(h.get('stubs',[])+['assume: '+a for a in h.get('assumptions',[])]) or '-'
        mode=('INT' if h.get('int_mode') else 'BV')+(', no native replay' if h.get('no_replay') else '')
        rows.append(f"| {p['id']} | {h['name']} ({mode}) | {h.get('decides','')} | {b.get('quick','-')} | {b.get('thorough','-')} | {sa} |".replace('\n',' '))
    if s.get('outside'):
        rows.append(f"| {p['id']} | *outside the claim* | {'; '.join(s['outside'])} | | | |")
table='\n'.join(rows)
na='\n'.join(f"* **{n['property_id']}** - {n['reason']}" for n in man['not_applicable']) or 'none'
seeded=open(f'{V}/seeded/RESULTS.md').read() if os.path.exists(f'{V}/seeded/RESULTS.md') else '(none yet)'
seeded=re.sub(r'^# .*\n','',seeded)
sec=open(f'{V}/tools/design_sec9.md').read().replace('{{TABLE}}',table).replace('{{NA}}',na).replace('{{SEEDED}}',seeded)
d=open(f'{V}/DESIGN.md').read()
B='<!-- BEGIN-ASBUILT -->'; E='<!-- END-ASBUILT -->'
if B in d:
    d=d[:d.index(B)]+B+sec+E+d[d.index(E)+len(E):]
else:
    d=d.rstrip('\n')+'\n\n'+B+sec+E+'\n'
open(f'{V}/DESIGN.md','w').write(d)
print('section 9 regenerated:',len(rows)-2,'rows')
