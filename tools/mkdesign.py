#!/usr/bin/env python3
"""Regenerate section 9 of DESIGN.md from tools/design_sec9.md, harness/specs, seeded/RESULTS.md, MANIFEST.json."""
import json, glob, os, re
V='/verif'
props=[json.loads(l) for l in open(f'{V}/properties.jsonl')]
man=json.load(open(f'{V}/MANIFEST.json'))
claimed={c['property_id'] for c in man['checks']}
rows=['| id | harness | decides | quick bound | thorough bound | stubs / assumptions |','|---|---|---|---|---|---|']
for p in props:
    sp=f'{V}/harness/specs/{p["id"]}.json'
    if p['id'] not in claimed or not os.path.exists(sp): continue
    s=json.load(open(sp))
    for h in s['harnesses']:
        b=h.get('bounds',{})
        sa='; '.join(h.get('stubs',[])+['assume: '+a for a in h.get('assumptions',[])]) or '-'
        mode=('INT' if h.get('int_mode') else 'BV')+(', no native replay' if h.get('no_replay') else '')
        rows.append(f"| {p['id']} | {h['name']} ({mode}) | {h.get('decides','')} | {b.get('quick','-')} | {b.get('thorough','-')} | {sa} |".replace('\n',' '))
    if s.get('outside'):
        rows.append(f"| {p['id']} | *outside the claim* | {'; '.join(s['outside'])} | | | |")
table='\n'.join(rows)
na='\n'.join(f"* **{n['property_id']}** - {n['reason']}" for n in man['not_applicable']) or 'none'
seeded=open(f'{V}/seeded/RESULTS.md').read() if os.path.exists(f'{V}/seeded/RESULTS.md') else '(none yet)'
seeded=re.sub(r'^# .*\n','',seeded)
cost=['| check | quick: wall time, paths, solver queries | thorough (where it differs from quick) |','|---|---|---|']
def parse(path):
    out={}
    if os.path.exists(path):
        for l in open(path):
            m=re.match(r'^(C\d\d) exit=(\d+) (\d+)s (?:RESULT .*?: (\d+) paths, (\d+) queries)?',l)
            if m: out[m.group(1)]=m.groups()[1:]
    return out
q=parse(f'{V}/evidence/runall.quick.log')
t={}
for f in ('runall.thorough.part1.log','runall.thorough.part2.log'):
    t.update(parse(f'{V}/evidence/'+f))
for c in man['checks']:
    i=c['property_id']
    qs='-'
    if i in q:
        e,sec_,pa,qu=q[i]; qs=f"{sec_} s, {pa or '?'} paths, {qu or '?'} queries"+('' if e=='0' else f' (exit {e})')
    if c['thorough_cmd'].endswith('quick'): ts='runs the quick tier'
    elif i in t:
        e,sec_,pa,qu=t[i]; ts=f"{sec_} s, {pa or '?'} paths"+('' if e=='0' else f' (exit {e})')
    else: ts='-'
    cost.append(f'| {i} | {qs} | {ts} |')
costs='\n'.join(cost)
sec=open(f'{V}/tools/design_sec9.md').read().replace('{{COSTS}}',costs).replace('{{TABLE}}',table).replace('{{NA}}',na).replace('{{SEEDED}}',seeded)
d=open(f'{V}/DESIGN.md').read()
B='<!-- BEGIN-ASBUILT -->'; E='<!-- END-ASBUILT -->'
if B in d:
    d=d[:d.index(B)]+B+sec+E+d[d.index(E)+len(E):]
else:
    d=d.rstrip('\n')+'\n\n'+B+sec+E+'\n'
open(f'{V}/DESIGN.md','w').write(d)
print('section 9 regenerated:',len(rows)-2,'rows')
