#!/usr/bin/env python3
"""Regenerate /verif/MANIFEST.json from harness/specs/C*.json and tools/not_applicable.json."""
import json, glob, os
V='/verif'
props=[json.loads(l) for l in open(f'{V}/properties.jsonl')]
base=json.load(open('/root/.vp/BASELINE.json'))
na=json.load(open(f'{V}/tools/not_applicable.json'))
checks=[];claimed=[]
for p in props:
    sp=f'{V}/harness/specs/{p["id"]}.json'
    if not os.path.exists(sp) or p['id'] in na: continue
    s=json.load(open(sp))
    if s.get('unclaimed'): continue
    claimed.append(p['id'])
    hs=s['harnesses']
    text=s.get('level_text') or ('Bounded symbolic model checking of the real code: '+'; '.join(f"[{h['name']}] {h.get('decides','')} (bounds quick: {h.get('bounds',{}).get('quick','-')}; thorough: {h.get('bounds',{}).get('thorough','-')})" for h in hs)+'. Every assertion and every reachable panic site on every feasible path is an SMT query that must be unsat; counterexamples and one witness per cover label are replayed natively against the real build.')
    stubs=sorted({x for h in hs for x in h.get('stubs',[])})
    ass=sorted({x for h in hs for x in h.get('assumptions',[])})
    note='Trusted: '+'; '.join(s.get('trusted_base',[]))+'. Stubs: '+('; '.join(stubs) or 'none')+'. Assumptions: '+('; '.join(ass) or 'none')+'. Outside the claim: '+('; '.join(s.get('outside',[])) or '-')+'.'
    checks.append({"property_id":p['id'],"quick_cmd":f"./check {p['id']} quick","thorough_cmd":(f"./check {p['id']} quick" if s.get('thorough_is_quick') else f"./check {p['id']} thorough"),
      "evidence_file":f"/verif/evidence/{p['id']}.json","replay_cmd_template":"./check --replay {path}","engine":"gosym",
      "level_claimed":{"category":"model_checking","text":text,"design_ref":f"DESIGN.md section 6, {p['id']}; section 9 (as built)"},
      "level_note":note,"technique":"bounded symbolic execution of go/ssa (path-forking interpreter) + SMT (z3 4.8.12; obligations cross-checked on z3 5.1.0 / cvc5 1.0), native replay of models"})
m={"version":1,"setup_cmd":"cd /verif && ./setup.sh",
 "hooks":{"guard":"verif","enable":"overlay-only: harness files are injected with go/packages Overlay and `go test -overlay`; no hook commits in /repo (guard tag unused)","baseline_off_cmd":base["cmd"],"source_commits":[],"add_only":True},
 "engines":[{"name":"gosym","path":"/verif/engine","serves_properties":claimed,"kind_free_text":"bounded symbolic execution of go/ssa with SMT back ends (z3 4.8.12 primary, z3 5.1.0 and cvc5 1.0 cross-check), regenerated from /repo's working tree on every run"}],
 "checks":checks,
 "notes":"Each check: /verif/check <ID> quick|thorough -> exit 0 holds within stated bounds, 1 VIOLATION (natively reproduced), 2 inconclusive (never counted as a pass). Known findings: /verif/known_findings.json.",
 "not_applicable":[{"property_id":p['id'],"reason":na.get(p['id'],"check not built yet: the engine tier this property needs (see DESIGN.md section 8) has not been reached")} for p in props if p['id'] not in claimed]}
json.dump(m,open(f'{V}/MANIFEST.json','w'),indent=1)
print('claimed',claimed)
