package crypto

import (
	vr "github.com/MixinNetwork/mixin/zzrt"
)

// ZZ_C14: aggregate transaction signatures: completeness and structural rejections.
func ZZ_C14() {
	n := vr.Choose(1, 3)
	if vr.Tier() > 0 {
		n = vr.Choose(1, 4)
	}
	privs := make([]*Key, n)
	publics := make([]*Key, n)
	for i := 0; i < n; i++ {
		k := zzScalarKey()
		privs[i] = &k
		pub := k.Public()
		publics[i] = &pub
	}
	var message Hash
	vr.Fill(message[:])
	seed := vr.Bytes(32)
	sel := vr.Choose(1, (1<<uint(n))-1)
	var signers []int
	var keys []*Key
	for i := 0; i < n; i++ {
		if sel&(1<<uint(i)) != 0 {
			signers = append(signers, i)
			keys = append(keys, privs[i])
		}
	}
	switch vr.Choose(0, 5) {
	case 0: // honest
		sig, err := AggregateSign(keys, publics, signers, seed, message)
		vr.Assert(err == nil && sig != nil, "sorted-signer-set-signs")
		if err != nil {
			return
		}
		vr.Cover("honest")
		vr.Assert(AggregateVerify(sig, publics, signers, message) == nil, "signature-verifies-for-its-key-vector-signer-set-and-message")
	case 1: // unsorted / duplicated signers
		if len(signers) < 2 {
			signers = append(signers, signers[0]) // duplicate
			keys = append(keys, keys[0])
		} else {
			signers[0], signers[1] = signers[1], signers[0]
			keys[0], keys[1] = keys[1], keys[0]
		}
		_, err := AggregateSign(keys, publics, signers, seed, message)
		vr.Assert(err != nil, "unsorted-or-duplicated-signers-cannot-sign")
		var sg Signature
		vr.Fill(sg[:])
		vr.Assert(AggregateVerify(&sg, publics, signers, message) != nil, "unsorted-or-duplicated-signers-never-verify")
		vr.Cover("unsorted")
	case 2: // out of range
		bad := append(append([]int{}, signers...), n)
		var sg Signature
		vr.Fill(sg[:])
		vr.Assert(AggregateVerify(&sg, publics, bad, message) != nil, "out-of-range-signer-never-verifies")
		_, err := AggregateSign(append(append([]*Key{}, keys...), keys[0]), publics, bad, seed, message)
		vr.Assert(err != nil, "out-of-range-signer-cannot-sign")
		vr.Cover("range")
	case 3: // empty signer list, nil signature, nil key
		var sg Signature
		vr.Fill(sg[:])
		vr.Assert(AggregateVerify(&sg, publics, nil, message) != nil, "empty-signer-set-never-verifies")
		vr.Assert(AggregateVerify(nil, publics, signers, message) != nil, "nil-signature-never-verifies")
		withNil := append([]*Key{}, publics...)
		withNil[signers[0]] = nil
		vr.Assert(AggregateVerify(&sg, withNil, signers, message) != nil, "nil-key-never-verifies")
		vr.Cover("degenerate")
	case 4: // count mismatch, short seed
		_, err := AggregateSign(keys[:len(keys)-1], publics, signers, seed, message)
		vr.Assert(err != nil, "private-key-count-must-match-signers")
		_, err = AggregateSign(keys, publics, signers, seed[:31], message)
		vr.Assert(err != nil, "seed-shorter-than-32-bytes-refused")
		vr.Cover("counts")
	case 5: // a private key that does not belong to its signer position
		other := zzScalarKey()
		vr.Assume(zzScalarOf(&other).Equal(zzScalarOf(keys[0])) == 0)
		wrong := append([]*Key{&other}, keys[1:]...)
		_, err := AggregateSign(wrong, publics, signers, seed, message)
		vr.Assert(err != nil, "private-key-not-matching-its-public-key-refused")
		vr.Cover("mismatch")
	}
}

// ZZ_C14_coefficients: the weights of the aggregate key are per-signer: two different signers
// of one signer set never get the same coefficient (this is what defeats key cancellation).
// Decided under a collision-free hash model (different hash inputs give different digests).
func ZZ_C14_coefficients() {
	n := vr.Choose(2, 3)
	publics := make([]*Key, n)
	signers := make([]int, n)
	for i := 0; i < n; i++ {
		k := zzScalarKey()
		pub := k.Public()
		publics[i] = &pub
		signers[i] = i
	}
	_, coefficients, _, err := aggregateWeightedPublicKey(publics, signers)
	vr.Assert(err == nil && len(coefficients) == n, "weights-computed-for-every-signer")
	if err != nil || len(coefficients) != n {
		return
	}
	for i := 0; i < n; i++ {
		for j := i + 1; j < n; j++ {
			vr.Assert(coefficients[i].Equal(coefficients[j]) == 0, "different-signers-have-different-weights")
		}
	}
	vr.Cover("weights")
}
