package crypto

import vr "github.com/MixinNetwork/mixin/zzrt"

// The (unweighted) CoSi aggregate key is an uninterpreted function of the selected keys in
// order; the structural checks on the signer list are the real ones.
var ZZAggKeyLog [][]Key

func ZZStub_aggregatePublicKey(publics []*Key, signers []int) (*Key, error) {
	selected, _, err := collectAggregateSigners(publics, signers)
	if err != nil {
		return nil, err
	}
	var flat []byte
	var sel []Key
	for _, s := range selected {
		flat = append(flat, s.public[:]...)
		sel = append(sel, *s.public)
	}
	ZZAggKeyLog = append(ZZAggKeyLog, sel)
	var k Key
	copy(k[:], vr.UFBytes("aggkey", 32, flat))
	return &k, nil
}
