package crypto

import (
	vr "github.com/MixinNetwork/mixin/zzrt"
)

// ZZ_C32_ghost: one-time keys. For any address (a,A=aG; b,B=bG), mask scalar r (R=rG) and
// output index: the sender-derived public key is the public key of the recipient-derived
// private key, and viewing with the private view key recovers the public spend key.
func ZZ_C32_ghost() {
	a, b, r := zzScalarKey(), zzScalarKey(), zzScalarKey()
	A, B, R := a.Public(), b.Public(), r.Public()
	index := vr.U64()
	P := DeriveGhostPublicKey(&r, &A, &B, index)
	p := DeriveGhostPrivateKey(&R, &a, &b, index)
	vr.Assert(p.Public() == *P, "sender-derived-key-is-public-key-of-recipient-derived-key")
	back := ViewGhostOutputKey(P, &a, &R, index)
	vr.Assert(*back == B, "viewing-recovers-the-public-spend-key")
	vr.Cover("derived")
}
