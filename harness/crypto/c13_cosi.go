package crypto

import (
	"filippo.io/edwards25519"
	vr "github.com/MixinNetwork/mixin/zzrt"
)

// zzScalarKey: an arbitrary private scalar in canonical encoding (reduction of 64 arbitrary bytes).
func zzScalarKey() Key {
	s, err := edwards25519.NewScalar().SetUniformBytes(vr.Bytes(64))
	if err != nil {
		panic(err)
	}
	var k Key
	copy(k[:], s.Bytes())
	return k
}

func zzScalarOf(k *Key) *edwards25519.Scalar {
	s, err := edwards25519.NewScalar().SetCanonicalBytes(k[:])
	if err != nil {
		panic(err)
	}
	return s
}

// ZZ_C13: collective signatures built from valid shares verify; structural failures are rejected.
func ZZ_C13() {
	n := vr.Choose(1, 3)
	if vr.Tier() > 0 {
		n = vr.Choose(1, 4)
	}
	privs := make([]Key, n)
	publics := make([]*Key, n)
	nonces := make([]Key, n)
	for i := 0; i < n; i++ {
		privs[i] = zzScalarKey()
		pub := privs[i].Public()
		publics[i] = &pub
		nonces[i] = zzScalarKey()
	}
	// the signer set: a non-empty subset chosen by a bit mask
	sel := vr.Choose(1, (1<<uint(n))-1)
	randoms := map[int]*Key{}
	for i := 0; i < n; i++ {
		if sel&(1<<uint(i)) != 0 {
			R := nonces[i].Public()
			randoms[i] = &R
		}
	}
	var message Hash
	vr.Fill(message[:])
	cosi, err := CosiAggregateCommitment(randoms)
	vr.Assert(err == nil, "commitments-aggregate")
	if err != nil {
		return
	}
	vr.Assert(cosi.Mask == uint64(sel), "mask-names-exactly-the-committed-signers")
	responses := map[int]*[32]byte{}
	for i := range randoms {
		s, err := cosi.Response(&privs[i], &nonces[i], publics, message)
		vr.Assert(err == nil, "response-computed")
		if err != nil {
			return
		}
		vr.Assert(cosi.VerifyResponse(publics, i, s, message) == nil, "valid-share-passes-single-response-verification")
		responses[i] = s
	}
	members := len(randoms)
	// structural failures
	switch vr.Choose(0, 4) {
	case 0: // honest run
		err = cosi.AggregateResponse(publics, responses, message, true)
		vr.Assert(err == nil, "strict-aggregation-of-valid-shares-succeeds")
		if err != nil {
			return
		}
		vr.Cover("honest")
		for t := 1; t <= members; t++ {
			vr.Assert(cosi.FullVerify(publics, t, message) == nil, "aggregate-of-valid-shares-verifies-for-every-threshold-up-to-the-mask-size")
		}
		vr.Assert(cosi.FullVerify(publics, members+1, message) != nil, "threshold-above-mask-size-fails")
		vr.Assert(cosi.FullVerify(publics, 0, message) != nil, "non-positive-threshold-fails")
	case 1: // a missing signer
		for i := range responses {
			delete(responses, i)
			break
		}
		vr.Assert(cosi.AggregateResponse(publics, responses, message, true) != nil, "missing-share-is-rejected")
		vr.Cover("missing")
	case 2: // a share from a node outside the mask
		extra := [32]byte{}
		vr.Fill(extra[:])
		found := false
		for i := 0; i < n; i++ {
			if _, ok := randoms[i]; !ok {
				responses[i] = &extra
				found = true
				break
			}
		}
		if !found {
			return
		}
		vr.Assert(cosi.AggregateResponse(publics, responses, message, true) != nil, "share-outside-the-mask-is-rejected")
		vr.Cover("outside")
	case 3: // mask index beyond the key vector
		short := publics[:0]
		vr.Assert(cosi.FullVerify(short, 1, message) != nil, "mask-index-outside-key-vector-fails")
		vr.Assert(cosi.AggregateResponse(short, responses, message, false) != nil, "aggregation-with-index-outside-key-vector-fails")
		vr.Cover("beyond")
	case 4: // a share that does not match its signer: computed with another private key
		var victim int
		for i := range responses {
			victim = i
			break
		}
		other := zzScalarKey()
		vr.Assume(zzScalarOf(&other).Equal(zzScalarOf(&privs[victim])) == 0)
		c, err := cosi.Challenge(publics, message)
		if err != nil {
			return
		}
		vr.Assume(c.Equal(edwards25519.NewScalar()) == 0) // the challenge hash is not zero
		bad, err := cosi.Response(&other, &nonces[victim], publics, message)
		if err != nil {
			return
		}
		vr.Cover("tampered")
		vr.Assert(cosi.VerifyResponse(publics, victim, bad, message) != nil, "mismatching-share-fails-single-response-verification")
		responses[victim] = bad
		vr.Assert(cosi.AggregateResponse(publics, responses, message, true) != nil, "mismatching-share-is-rejected-in-strict-aggregation")
	}
}

// ZZ_C13_mask: the signer mask and the signer list are the same set for every position of
// the 64-bit mask: marking position i (0..63) sets exactly bit i, Keys() reports exactly the
// marked positions in increasing order, and positions outside 0..63 are refused.
func ZZ_C13_mask() {
	var c CosiSignature
	i := vr.Choose(0, 63)
	j := vr.Choose(0, 63)
	vr.Assert(c.mark(i) == nil, "positions-0-to-63-can-be-marked")
	vr.Assert(c.Mask == uint64(1)<<uint(i), "marking-sets-exactly-that-bit")
	if j != i {
		vr.Assert(c.mark(j) == nil, "positions-0-to-63-can-be-marked")
	}
	keys := c.Keys()
	want := []int{i}
	if j < i {
		want = []int{j, i}
	} else if j > i {
		want = []int{i, j}
	}
	vr.Assert(len(keys) == len(want), "keys-are-exactly-the-marked-positions")
	for k := range want {
		if k < len(keys) {
			vr.Assert(keys[k] == want[k], "keys-are-exactly-the-marked-positions")
		}
	}
	vr.Assert(c.ThresholdVerify(len(want)) && !c.ThresholdVerify(len(want)+1), "threshold-counts-the-marked-positions")
	bad := vr.Int()
	vr.Assume(bad < 0 || bad > 63)
	vr.Assert(c.mark(bad) != nil, "positions-outside-the-mask-are-refused")
	vr.Cover("mask")
}
