package crypto

import vr "github.com/MixinNetwork/mixin/zzrt"

// ZZStub_Key_CheckKey: point validity is an uninterpreted predicate of the 32 key bytes.
func ZZStub_Key_CheckKey(k Key) bool {
	return vr.UFBool("checkkey", k[:])
}
