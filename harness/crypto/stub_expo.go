package crypto

import "filippo.io/edwards25519"

// Exponent model: decoding a point keeps its value (edwards25519 SetBytes is an engine
// intrinsic with an uninterpreted validity predicate); the decoded-point cache and the
// subgroup check of the real decodePoint are not modelled.
func ZZStub_decodePoint(src []byte) (*edwards25519.Point, error) {
	return edwards25519.NewIdentityPoint().SetBytes(src)
}
