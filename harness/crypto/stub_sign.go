package crypto

import vr "github.com/MixinNetwork/mixin/zzrt"

// Signing is an uninterpreted function of (private key, message); calls are logged.
var ZZSigned []Hash

func ZZStub_Key_Sign(privateKey *Key, message Hash) Signature {
	var s Signature
	copy(s[:], vr.UFBytes("sign", 64, privateKey[:], message[:]))
	ZZSigned = append(ZZSigned, message)
	return s
}
