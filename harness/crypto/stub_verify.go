package crypto

import (
	"filippo.io/edwards25519"
	vr "github.com/MixinNetwork/mixin/zzrt"
)

// Signature verdicts are uninterpreted predicates of (key, message, signature);
// the calls are logged so that a harness can state which keys / message were checked.

type ZZVerifyCall struct {
	Keys    []Key
	Sigs    []Signature
	Msg     Hash
	Signers []int // aggregate form
	Agg     bool
	Result  bool
}

var ZZVerifyLog []ZZVerifyCall

func zzVerify1(k *Key, msg Hash, sig Signature) bool {
	return vr.UFBool("sigverify", k[:], msg[:], sig[:])
}

func ZZStub_Key_Verify(publicKey *Key, message Hash, sig Signature) bool {
	r := zzVerify1(publicKey, message, sig)
	ZZVerifyLog = append(ZZVerifyLog, ZZVerifyCall{Keys: []Key{*publicKey}, Sigs: []Signature{sig}, Msg: message, Result: r})
	return r
}

// BatchVerify is specified as: every (key, signature) pair verifies individually.
func ZZStub_BatchVerify(msg Hash, keys []*Key, sigs []*Signature) bool {
	if len(keys) == 0 || len(keys) != len(sigs) {
		return false
	}
	c := ZZVerifyCall{Msg: msg}
	ok := true
	for i := range keys {
		if keys[i] == nil || sigs[i] == nil {
			return false
		}
		c.Keys = append(c.Keys, *keys[i])
		c.Sigs = append(c.Sigs, *sigs[i])
		ok = vr.And(ok, zzVerify1(keys[i], msg, *sigs[i]))
	}
	c.Result = ok
	ZZVerifyLog = append(ZZVerifyLog, c)
	return ok
}

type zzAggErr struct{}

func (zzAggErr) Error() string { return "stub: aggregate verification failed" }

func ZZStub_AggregateVerify(sig *Signature, publics []*Key, signers []int, message Hash) error {
	if sig == nil {
		return zzAggErr{}
	}
	// the structural checks are the real ones (signer order, range, nil keys, point validity)
	if _, _, err := collectAggregateSigners(publics, signers); err != nil {
		return err
	}
	c := ZZVerifyCall{Msg: message, Agg: true, Signers: append([]int{}, signers...), Sigs: []Signature{*sig}}
	var flat []byte
	for _, k := range publics {
		if k == nil {
			return zzAggErr{}
		}
		c.Keys = append(c.Keys, *k)
		flat = append(flat, k[:]...)
	}
	var sg []byte
	for _, s := range signers {
		sg = append(sg, byte(s>>8), byte(s))
	}
	c.Result = vr.UFBool("aggverify", flat, sg, message[:], sig[:])
	ZZVerifyLog = append(ZZVerifyLog, c)
	if !c.Result {
		return zzAggErr{}
	}
	return nil
}

// Point decoding: validity is an uninterpreted predicate of the bytes (the point itself is not used by the stubs).
func ZZStub_decodePoint(src []byte) (*edwards25519.Point, error) {
	if !vr.UFBool("checkkey", src) {
		return nil, zzAggErr{}
	}
	return edwards25519.NewIdentityPoint(), nil
}

func ZZStub_ViewGhostOutputKey(P, a, R *Key, outputIndex uint64) *Key {
	var k Key
	idx := []byte{byte(outputIndex >> 8), byte(outputIndex)}
	copy(k[:], vr.UFBytes("viewghost", 32, P[:], a[:], R[:], idx))
	return &k
}

func ZZStub_Key_DeterministicHashDerive(k Key) Key {
	var r Key
	copy(r[:], vr.UFBytes("hashderive", 32, k[:]))
	return r
}

func ZZStub_Key_Public(k Key) Key {
	var r Key
	copy(r[:], vr.UFBytes("public", 32, k[:]))
	return r
}
