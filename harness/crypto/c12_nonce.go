package crypto

import (
	vr "github.com/MixinNetwork/mixin/zzrt"
)

// ZZ_C12: a CoSi nonce answers at most one challenge, whatever the interleaving of
// concurrent users of (copies of) the handle.
func ZZ_C12() {
	nThreads := 2
	if vr.Tier() > 0 {
		nThreads = 3
	}
	random := zzScalarKey()
	priv := zzScalarKey()
	pub := priv.Public()
	publics := []*Key{&pub}
	handle := newCosiNonce(&random)
	// every caller has its own signature object and message (all inputs drawn before the threads start)
	type call struct {
		sig  *CosiSignature
		msg  Hash
		copy CosiNonce
		resp *[32]byte
		err  error
		chal [32]byte
	}
	calls := make([]*call, nThreads)
	for i := range calls {
		c := &call{sig: &CosiSignature{Mask: 1}, copy: *handle}
		vr.Fill(c.sig.Signature[:32])
		vr.Fill(c.msg[:])
		ch, err := c.sig.Challenge(publics, c.msg)
		if err != nil {
			return
		}
		copy(c.chal[:], ch.Bytes())
		calls[i] = c
	}
	for _, c := range calls {
		c := c
		vr.Go(func() {
			c.resp, c.err = c.copy.Response(c.sig, &priv, publics, c.msg)
		})
	}
	vr.Wait()
	vr.Cover("joined")
	answered := 0
	var first *call
	for _, c := range calls {
		if c.err == nil {
			vr.Assert(c.resp != nil, "success-carries-a-response")
			answered++
			if first == nil {
				first = c
			} else {
				// two successful answers: same challenge and byte-identical responses
				vr.Assert(c.chal == first.chal, "one-nonce-never-answers-two-different-challenges")
				vr.Assert(*c.resp == *first.resp, "repeating-the-challenge-returns-the-identical-response")
			}
		} else {
			vr.Assert(c.err == ErrCosiNonceReuse, "a-different-challenge-is-refused-with-the-nonce-reuse-error")
		}
	}
	vr.Assert(answered >= 1, "the-first-user-is-answered")
	for _, c := range calls {
		if c.err != nil && first != nil {
			vr.Assert(c.chal != first.chal, "only-a-different-challenge-is-refused")
		}
	}
	// the secret nonce is wiped after first use
	vr.Assert(handle.state.used && handle.state.random == nil, "nonce-secret-dropped-after-use")
	for _, b := range random {
		vr.Assert(b == 0, "nonce-secret-zeroed")
	}
}
