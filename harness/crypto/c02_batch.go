package crypto

import (
	"bytes"

	vr "github.com/MixinNetwork/mixin/zzrt"
)

// Randomness is an arbitrary byte string per draw; draws are logged.
var ZZRandDraws [][]byte

func ZZStub_ReadRand(buf []byte) {
	vr.Fill(buf)
	ZZRandDraws = append(ZZRandDraws, append([]byte{}, buf...))
}

// ZZ_C02_batch: the batch verifier used for signature maps (exponent model of the curve).
// Honest signatures of two keys over one message verify as a batch. The same two signatures
// with their scalar halves exchanged - neither of which verifies on its own - are rejected
// whenever the per-entry blinding draws differ (every entry must get its own blinding factor).
func ZZ_C02_batch() {
	a0, a1 := zzScalarKey(), zzScalarKey()
	A0, A1 := a0.Public(), a1.Public()
	var msg Hash
	vr.Fill(msg[:])
	s0, s1 := a0.Sign(msg), a1.Sign(msg)
	keys := []*Key{&A0, &A1}
	ZZRandDraws = nil
	ok := BatchVerify(msg, keys, []*Signature{&s0, &s1})
	vr.Assert(ok, "honest-batch-verifies")
	vr.Cover("honest")
	// forgery: exchange the scalar halves
	vr.Assume(!bytes.Equal(s0[32:], s1[32:]))
	f0, f1 := s0, s1
	copy(f0[32:], s1[32:])
	copy(f1[32:], s0[32:])
	ZZRandDraws = nil
	forged := BatchVerify(msg, keys, []*Signature{&f0, &f1})
	// the blinding draws of one verification are pairwise different (holds with overwhelming probability)
	for i := range ZZRandDraws {
		for j := i + 1; j < len(ZZRandDraws); j++ {
			vr.Assume(!bytes.Equal(ZZRandDraws[i], ZZRandDraws[j]))
		}
	}
	vr.Assert(!forged, "exchanged-scalars-are-rejected-under-distinct-blinding")
	vr.Cover("forgery-rejected")
}
