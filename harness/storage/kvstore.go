package storage

import (
	"sync"

	"github.com/MixinNetwork/mixin/common"
	"github.com/MixinNetwork/mixin/crypto"
	vr "github.com/MixinNetwork/mixin/zzrt"
)

// ZZNewStore: a BadgerStore over the symbolic KV model (engine) / a real in-memory Badger (replay).
func ZZNewStore() *BadgerStore {
	return &BadgerStore{snapshotsDB: vr.NewKV(), cacheDB: vr.NewKV(), mutex: new(sync.RWMutex)}
}

func zzHash() (h crypto.Hash) { vr.Fill(h[:]); return }

func zzSnap(round uint64) *common.Snapshot {
	s := &common.Snapshot{Version: common.SnapshotVersionCommonEncoding, NodeId: zzHash(), RoundNumber: round, Timestamp: vr.U64()}
	if round > 0 {
		s.References = &common.RoundLink{Self: zzHash(), External: zzHash()}
	}
	s.Transactions = []crypto.Hash{zzHash()}
	return s
}
