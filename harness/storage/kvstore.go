package storage

import (
	"bytes"
	"sync"

	"github.com/MixinNetwork/mixin/common"
	"github.com/MixinNetwork/mixin/crypto"
	vr "github.com/MixinNetwork/mixin/zzrt"
	"github.com/dgraph-io/badger/v4"
)

// ZZNewStore: a BadgerStore over the symbolic KV model (engine) / a real in-memory Badger (replay).
func ZZNewStore() *BadgerStore {
	return &BadgerStore{snapshotsDB: vr.NewKV(), cacheDB: vr.NewKV(), mutex: new(sync.RWMutex)}
}

func zzHash() (h crypto.Hash) { vr.Fill(h[:]); return }

func zzSnap(round uint64) *common.Snapshot {
	s := &common.Snapshot{Version: common.SnapshotVersionCommonEncoding, NodeId: zzHash(), RoundNumber: round, Timestamp: vr.U64()}
	if round > 0 {
		s.References = &common.RoundLink{Self: zzHash(), External: zzHash()}
	}
	s.Transactions = []crypto.Hash{zzHash()}
	return s
}

func zzIntegerFromBytes(b []byte) common.Integer {
	// Integer has no exported constructor from bytes: go through its JSON-free decoder path
	dec := common.NewDecoder(append([]byte{0, byte(len(b))}, b...))
	v, err := dec.ReadInteger()
	if err != nil {
		panic(err)
	}
	return v
}

// exported helpers for harnesses in other packages (kernel)
func (s *BadgerStore) ZZWriteRound(hash crypto.Hash, r *common.Round) error {
	txn := s.snapshotsDB.NewTransaction(true)
	defer txn.Discard()
	if err := writeRound(txn, hash, r); err != nil {
		return err
	}
	return txn.Commit()
}

func (s *BadgerStore) ZZWriteLink(from, to crypto.Hash, link uint64) error {
	txn := s.snapshotsDB.NewTransaction(true)
	defer txn.Discard()
	if err := writeLink(txn, from, to, link); err != nil {
		return err
	}
	return txn.Commit()
}

func (s *BadgerStore) ZZDump() [][2][]byte { return zzDump(s) }

func ZZSameDump(a, b [][2][]byte) bool { return zzSameDump(a, b) }

// zzDump returns every (key, value) pair of the snapshots DB in key order.
func zzDump(s *BadgerStore) [][2][]byte {
	txn := s.snapshotsDB.NewTransaction(false)
	defer txn.Discard()
	it := txn.NewIterator(badger.DefaultIteratorOptions)
	defer it.Close()
	var out [][2][]byte
	for it.Rewind(); it.Valid(); it.Next() {
		v, err := it.Item().ValueCopy(nil)
		if err != nil {
			panic(err)
		}
		out = append(out, [2][]byte{it.Item().KeyCopy(nil), v})
	}
	return out
}

func zzSameDump(a, b [][2][]byte) bool {
	if len(a) != len(b) {
		return false
	}
	same := true
	for i := range a {
		same = vr.And(same, vr.And(bytes.Equal(a[i][0], b[i][0]), bytes.Equal(a[i][1], b[i][1])))
	}
	return same
}

func zzSet(s *BadgerStore, key, val []byte) {
	txn := s.snapshotsDB.NewTransaction(true)
	defer txn.Discard()
	if err := txn.Set(key, val); err != nil {
		panic(err)
	}
	if err := txn.Commit(); err != nil {
		panic(err)
	}
}

func zzHas(s *BadgerStore, key []byte) bool {
	txn := s.snapshotsDB.NewTransaction(false)
	defer txn.Discard()
	_, err := txn.Get(key)
	return err == nil
}


func zzGet(s *BadgerStore, key []byte) ([]byte, bool) {
	txn := s.snapshotsDB.NewTransaction(false)
	defer txn.Discard()
	item, err := txn.Get(key)
	if err != nil {
		return nil, false
	}
	v, err := item.ValueCopy(nil)
	if err != nil {
		panic(err)
	}
	return v, true
}


// ZZPutSnapshot stores a snapshot body with its topology entries (as writeSnapshot does).
func (s *BadgerStore) ZZPutSnapshot(snap *common.Snapshot, topo uint64) error {
	txn := s.snapshotsDB.NewTransaction(true)
	defer txn.Discard()
	t := &common.SnapshotWithTopologicalOrder{Snapshot: snap, TopologicalOrder: topo}
	key := graphSnapshotKey(snap.NodeId, snap.RoundNumber, snap.PayloadHash())
	if err := txn.Set(key, t.VersionedMarshal()); err != nil {
		return err
	}
	if err := writeTopology(txn, t); err != nil {
		return err
	}
	return txn.Commit()
}

// ZZPutConsensusSnapshot additionally records it as the last consensus operation.
func (s *BadgerStore) ZZPutConsensusSnapshot(snap *common.Snapshot, topo uint64) error {
	if err := s.ZZPutSnapshot(snap, topo); err != nil {
		return err
	}
	txn := s.snapshotsDB.NewTransaction(true)
	defer txn.Discard()
	if err := txn.Set(graphConsensusSnapshotKey(snap.Timestamp, snap.PayloadHash()), []byte{}); err != nil {
		return err
	}
	return txn.Commit()
}

// ZZPutTransaction stores a transaction body (as WriteTransaction does, without the lock assertions).
func (s *BadgerStore) ZZPutTransaction(ver *common.VersionedTransaction) error {
	txn := s.snapshotsDB.NewTransaction(true)
	defer txn.Discard()
	if err := txn.Set(graphTransactionKey(ver.PayloadHash()), ver.Marshal()); err != nil {
		return err
	}
	return txn.Commit()
}

// Graph validation at startup is out of scope of the restart fragments (C22's subject).
func ZZStub_BadgerStore_ValidateGraphEntries(s *BadgerStore, networkId crypto.Hash, depth uint64) (int, int, error) {
	return 0, 0, nil
}
