package storage

import (
	"bytes"
	"encoding/json"

	"github.com/MixinNetwork/mixin/common"
	"github.com/MixinNetwork/mixin/crypto"
	vr "github.com/MixinNetwork/mixin/zzrt"
)

// zzBoundaryState is what must hold at every durable-write boundary of the script below
// (a process stopping there restarts from exactly this store): the startup validator of the
// chain finds no invalid entry and does not fail, every finalized transaction still has its
// body, its finalization record and its outputs, and topology positions are unique.
type zzBoundaryTx struct {
	ver  *common.VersionedTransaction
	hash crypto.Hash
	snap crypto.Hash
}

func zzCheckBoundary(s *BadgerStore, node crypto.Hash, finalized []*zzBoundaryTx, topos []uint64, label string) {
	total, invalid, err := s.validateSnapshotEntriesForNode(node, 10)
	vr.Assert(err == nil, "validator-does-not-fail@"+label)
	vr.Assert(invalid == 0, "validator-reports-no-invalid-entry@"+label)
	n := 0
	for _, f := range finalized {
		n += 1
		body, ok := zzGet(s, graphTransactionKey(f.hash))
		vr.Assert(ok && bytes.Equal(body, f.ver.Marshal()), "finalized-transaction-keeps-its-body@"+label)
		fin, ok := zzGet(s, graphFinalizationKey(f.hash))
		vr.Assert(ok && bytes.Equal(fin, f.snap[:]), "finalized-transaction-keeps-its-finalization-record@"+label)
		for _, u := range f.ver.UnspentOutputs() {
			vr.Assert(zzHas(s, graphUtxoKey(u.Hash, u.Index)), "finalized-transaction-keeps-its-outputs@"+label)
		}
	}
	_ = total
	for i, t := range topos {
		v, ok := zzGet(s, graphTopologyKey(t))
		vr.Assert(ok, "topology-position-recorded@"+label)
		for j := 0; j < i; j++ {
			w, _ := zzGet(s, graphTopologyKey(topos[j]))
			vr.Assert(!bytes.Equal(v, w), "topology-positions-name-different-snapshots@"+label)
		}
	}
}

// ZZ_C22: one chain goes through round 0 -> 1 -> 2 with a deposit finalized in each of the
// first two rounds, every step being the real durable call (admission: LockDepositInput,
// LockGhostKeys, WriteTransaction; finalization: WriteSnapshot; round transition:
// StartNewRound). Each call is one atomic, synchronous Badger transaction, so the states a
// crash can leave behind are exactly the states between calls: the boundary condition is
// checked after every one of them.
func ZZ_C22() {
	s := ZZNewStore()
	node, other, asset, chainId := zzHash(), zzHash(), zzHash(), zzHash()
	vr.Assume(node.HasValue() && other.HasValue() && node != other && chainId.HasValue())
	info, err := json.Marshal(&common.Asset{Chain: chainId, AssetKey: "0xkey"})
	if err != nil {
		panic(err)
	}
	zzSet(s, graphAssetInfoKey(asset), info)
	zzSetTotal(s, asset, common.NewInteger(0))
	// another chain with a final round that links can point at
	otherFinal := zzHash()
	vr.Assume(otherFinal.HasValue() && otherFinal != node && otherFinal != other)
	{
		txn := s.snapshotsDB.NewTransaction(true)
		if err := writeRound(txn, otherFinal, &common.Round{Hash: otherFinal, NodeId: other, Number: 0}); err != nil {
			panic(err)
		}
		if err := txn.Commit(); err != nil {
			panic(err)
		}
	}
	// every boundary state is checked along one run: the store after call k IS the store a
	// process stopping after call k restarts from (no separate run per cut is needed)
	step := 0
	var finalized []*zzBoundaryTx
	var topos []uint64
	boundary := func(label string) bool {
		step++
		zzCheckBoundary(s, node, finalized, topos, label)
		return false
	}
	deposit := func(seq byte) *common.VersionedTransaction {
		ver := zzFinalizableTx(asset, 1)
		ver.Inputs[0].Deposit.Chain = chainId
		ver.Inputs[0].Deposit.Index = uint64(seq)
		// a transaction hash is never all-zero (BLAKE3 artefact of the uninterpreted model)
		vr.Assume(ver.PayloadHash().HasValue())
		return ver
	}
	admit := func(ver *common.VersionedTransaction, tag string) bool {
		h := ver.PayloadHash()
		lerr := s.LockDepositInput(ver.Inputs[0].Deposit, h, false)
		if lerr != nil && vr.Replaying() {
			println("ZZ-NOTE LockDepositInput:", lerr.Error())
		}
		vr.Assert(lerr == nil, "admission-lock-deposit")
		if boundary("after-lock-deposit-" + tag) {
			return true
		}
		vr.Assert(s.LockGhostKeys(ver.Outputs[0].Keys, h, false) == nil, "admission-lock-keys")
		if boundary("after-lock-keys-" + tag) {
			return true
		}
		vr.Assert(s.WriteTransaction(ver) == nil, "admission-write-body")
		return boundary("after-write-body-" + tag)
	}
	var roundSnaps [][]*common.SnapshotWithTopologicalOrder
	finalize := func(ver *common.VersionedTransaction, round uint64, refs *common.RoundLink, topo uint64, tag string) bool {
		sn := &common.Snapshot{Version: common.SnapshotVersionCommonEncoding, NodeId: node, RoundNumber: round, References: refs, Timestamp: vr.U64()}
		vr.Assume(sn.Timestamp > 0 && sn.Timestamp < 1<<62)
		sn.Transactions = []crypto.Hash{ver.PayloadHash()}
		sn.Hash = sn.PayloadHash()
		st := &common.SnapshotWithTopologicalOrder{Snapshot: sn, TopologicalOrder: topo}
		werr := s.WriteSnapshot(st, []crypto.Hash{node})
		if werr != nil && vr.Replaying() {
			println("ZZ-NOTE WriteSnapshot:", werr.Error())
		}
		vr.Assert(werr == nil, "finalization-write")
		finalized = append(finalized, &zzBoundaryTx{ver: ver, hash: ver.PayloadHash(), snap: sn.Hash})
		topos = append(topos, topo)
		for len(roundSnaps) <= int(round) {
			roundSnaps = append(roundSnaps, nil)
		}
		roundSnaps[round] = append(roundSnaps[round], st)
		return boundary("after-finalization-" + tag)
	}

	// round 0
	vr.Assert(s.StartNewRound(node, 0, nil, 0) == nil, "round-0")
	if boundary("after-round-0") {
		return
	}
	t0 := deposit(0)
	if admit(t0, "t0") {
		return
	}
	if finalize(t0, 0, nil, 1, "s0") {
		return
	}
	// round 1
	start0, _, hash0 := computeRoundHash(node, 0, roundSnaps[0])
	vr.Assume(hash0 != node && hash0 != other && hash0 != otherFinal && hash0.HasValue()) // round hashes are fresh (no BLAKE3 collision)
	refs1 := &common.RoundLink{Self: hash0, External: otherFinal}
	vr.Assert(s.StartNewRound(node, 1, refs1, start0) == nil, "round-1")
	if boundary("after-round-1") {
		return
	}
	t1 := deposit(1)
	vr.Assume(t1.PayloadHash() != t0.PayloadHash() && *t1.Outputs[0].Keys[0] != *t0.Outputs[0].Keys[0])
	// different deposits use different slots (C03) - no BLAKE3 collision between their keys
	vr.Assume(!bytes.Equal(graphDepositKey(t0.Inputs[0].Deposit), graphDepositKey(t1.Inputs[0].Deposit)))
	if admit(t1, "t1") {
		return
	}
	if finalize(t1, 1, refs1, 2, "s1") {
		return
	}
	// round 2
	start1, _, hash1 := computeRoundHash(node, 1, roundSnaps[1])
	vr.Assume(hash1 != hash0 && hash1 != node && hash1 != other && hash1 != otherFinal && hash1.HasValue())
	refs2 := &common.RoundLink{Self: hash1, External: otherFinal}
	vr.Assert(s.StartNewRound(node, 2, refs2, start1) == nil, "round-2")
	boundary("after-round-2")
	vr.Cover("all-boundaries")
}
