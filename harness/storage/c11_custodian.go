package storage

import (
	"github.com/MixinNetwork/mixin/common"
	"github.com/MixinNetwork/mixin/crypto"
	vr "github.com/MixinNetwork/mixin/zzrt"
)

type zzCustodianRec struct {
	ts   uint64
	hash crypto.Hash
	addr common.Address
}

func zzPutCustodianUpdate(s *BadgerStore, ts uint64, seq byte) *zzCustodianRec {
	tx := common.Transaction{Version: common.TxVersionHashSignature, Asset: common.XINAssetId}
	var in crypto.Hash
	in[0], in[1] = 0x66, seq
	tx.Inputs = []*common.Input{{Hash: in, Index: 0}}
	k := crypto.Key{}
	k[0] = 0x44
	tx.Outputs = []*common.Output{{Type: common.OutputTypeCustodianUpdateNodes, Amount: common.NewInteger(100), Keys: []*crypto.Key{&k}, Script: common.Script{common.OperatorCmp, common.OperatorSum, 64}}}
	tx.Extra = vr.Bytes(64)
	ver := &common.VersionedTransaction{SignedTransaction: common.SignedTransaction{Transaction: tx}}
	if err := s.ZZPutTransaction(ver); err != nil {
		panic(err)
	}
	r := &zzCustodianRec{ts: ts, hash: ver.PayloadHash()}
	copy(r.addr.PublicSpendKey[:], tx.Extra[:32])
	copy(r.addr.PublicViewKey[:], tx.Extra[32:64])
	zzSet(s, graphCustodianUpdateKey(ts), r.hash[:])
	return r
}

func zzSameCustodian(r *common.CustodianUpdateRequest, want *zzCustodianRec) bool {
	if want == nil {
		return r == nil
	}
	return r != nil && r.Timestamp == want.ts && r.Transaction == want.hash && r.Custodian != nil &&
		r.Custodian.PublicSpendKey == want.addr.PublicSpendKey && r.Custodian.PublicViewKey == want.addr.PublicViewKey
}

// ZZ_C11_custodian: the custodian reported for a time q is the update with the greatest
// timestamp <= q, whether the lookup is served from the in-memory cache or not, whatever
// was asked before, and whatever updates are appended later.
func ZZ_C11_custodian() {
	s := ZZNewStore()
	max := 2
	if vr.Tier() > 0 {
		max = 3
	}
	n := vr.Choose(0, max)
	var recs []*zzCustodianRec
	last := uint64(0)
	for i := 0; i < n; i++ {
		ts := vr.U64()
		vr.Assume(ts > last && ts < 1<<62)
		last = ts
		r := zzPutCustodianUpdate(s, ts, byte(i))
		for _, o := range recs {
			vr.Assume(o.hash != r.hash)
		}
		recs = append(recs, r)
	}
	q := vr.U64()
	vr.Assume(q < 1<<62)
	var want *zzCustodianRec
	for _, r := range recs {
		if r.ts <= q {
			want = r
		}
	}
	if want != nil {
		vr.Cover("found")
	} else {
		vr.Cover("none-yet")
	}
	if vr.Bool() {
		// another lookup first (fills the cache with other entries, possibly under the genesis flag)
		other := vr.U64()
		vr.Assume(other < 1<<62)
		_, err := s.ReadCustodian(other)
		vr.Assert(err == nil, "lookup-succeeds")
	}
	r1, err := s.ReadCustodian(q)
	vr.Assert(err == nil && zzSameCustodian(r1, want), "custodian-is-the-latest-update-not-after-the-time")
	// a later update is appended
	later := vr.U64()
	vr.Assume(later > q && later > last && later < 1<<62)
	lr := zzPutCustodianUpdate(s, later, 9)
	for _, o := range recs {
		vr.Assume(o.hash != lr.hash)
	}
	r2, err := s.ReadCustodian(q) // now (partly) served from the cache
	vr.Assert(err == nil && zzSameCustodian(r2, want), "later-update-does-not-change-an-earlier-answer")
	txn := s.snapshotsDB.NewTransaction(false)
	r3, err := readCustodianAccount(txn, q, nil) // no cache at all
	txn.Discard()
	vr.Assert(err == nil && zzSameCustodian(r3, want), "uncached-lookup-gives-the-same-answer")
	r4, err := s.ReadCustodian(later)
	vr.Assert(err == nil && zzSameCustodian(r4, lr), "the-appended-update-is-reported-from-its-own-time-on")
	vr.Cover("appended")
}
