package storage

import (
	"bytes"

	"github.com/MixinNetwork/mixin/common"
	"github.com/MixinNetwork/mixin/config"
	"github.com/MixinNetwork/mixin/crypto"
	vr "github.com/MixinNetwork/mixin/zzrt"
)

func zzCacheTx(withSig bool) *common.VersionedTransaction {
	tx := common.Transaction{Version: common.TxVersionHashSignature, Asset: zzHash()}
	tx.Inputs = []*common.Input{{Hash: zzHash(), Index: 0}}
	k := crypto.Key(zzHash())
	tx.Outputs = []*common.Output{{Type: common.OutputTypeScript, Amount: common.NewInteger(1), Keys: []*crypto.Key{&k}, Mask: crypto.Key(zzHash()), Script: common.NewThresholdScript(1)}}
	ver := &common.VersionedTransaction{SignedTransaction: common.SignedTransaction{Transaction: tx}}
	if withSig {
		var sg crypto.Signature
		vr.Fill(sg[:])
		ver.SignaturesMap = []map[uint16]*crypto.Signature{{0: &sg}}
	}
	return ver
}

// ZZ_C23: only queueing makes a cached transaction eligible for proposal.
func ZZ_C23() {
	s := ZZNewStore()
	s.custom = &config.Custom{}
	s.custom.Node.CacheTTL = 7200 // entries do not expire inside the scenario (TTL expiry is outside the claim)
	A, B := zzCacheTx(false), zzCacheTx(false)
	A2 := &common.VersionedTransaction{SignedTransaction: common.SignedTransaction{Transaction: A.Transaction}}
	var sg crypto.Signature
	vr.Fill(sg[:])
	A2.SignaturesMap = []map[uint16]*crypto.Signature{{0: &sg}} // same payload as A, different signatures
	hA, hB := A.PayloadHash(), B.PayloadHash()
	vr.Assume(hA != hB)
	vr.Assert(A2.PayloadHash() == hA, "same-payload-same-hash")
	txs := []*common.VersionedTransaction{A, A2, B}
	hashOf := []crypto.Hash{hA, hA, hB}
	idx := func(h crypto.Hash) int {
		if h == hA {
			return 0
		}
		return 1
	}
	queued := [2]int{}    // queue calls per payload hash
	retrieved := [2]int{} // times returned by a retrieval
	stored := [2]bool{}   // a body is known to be in the cache
	maxOps := 3
	if vr.Tier() > 0 {
		maxOps = 4
	}
	n := vr.Choose(1, maxOps)
	for step := 0; step < n; step++ {
		switch vr.Choose(0, 4) {
		case 0: // queue
			t := vr.Choose(0, 2)
			err := s.CacheQueueTransaction(txs[t])
			vr.Assert(err == nil, "queue-succeeds")
			queued[idx(hashOf[t])]++
			stored[idx(hashOf[t])] = true
			vr.Cover("queue")
		case 1: // store only
			t := vr.Choose(0, 2)
			err := s.CacheStoreTransaction(txs[t])
			vr.Assert(err == nil, "store-succeeds")
			stored[idx(hashOf[t])] = true
			vr.Cover("store")
		case 2: // retrieve
			limit := vr.Choose(0, 2)
			got, err := s.CacheRetrieveTransactions(limit)
			vr.Assert(err == nil, "retrieve-succeeds")
			vr.Assert(len(got) <= limit, "retrieval-respects-limit")
			seen := [2]bool{}
			for _, g := range got {
				h := g.PayloadHash()
				vr.Assert(h == hA || h == hB, "retrieved-is-a-known-transaction")
				i := idx(h)
				vr.Assert(!seen[i], "retrieval-returns-each-transaction-at-most-once")
				seen[i] = true
				retrieved[i]++
				vr.Assert(retrieved[i] <= queued[i], "each-queueing-returned-by-at-most-one-retrieval")
				// retrieval keeps the stored body
				kept, err := s.CacheGetTransaction(h)
				vr.Assert(err == nil && kept != nil, "retrieval-keeps-the-body")
				if kept != nil {
					vr.Assert(bytes.Equal(kept.Marshal(), g.Marshal()), "returned-body-is-the-stored-body")
				}
			}
			if len(got) > 0 {
				vr.Cover("retrieved-something")
			}
		case 3: // remove
			t := vr.Choose(0, 2)
			err := s.CacheRemoveTransactions([]crypto.Hash{hashOf[t]})
			vr.Assert(err == nil, "remove-succeeds")
			stored[idx(hashOf[t])] = false
			got, err := s.CacheGetTransaction(hashOf[t])
			vr.Assert(err == nil && got == nil, "removal-deletes-the-body")
			vr.Cover("remove")
		case 4: // get
			t := vr.Choose(0, 2)
			got, err := s.CacheGetTransaction(hashOf[t])
			vr.Assert(err == nil, "get-succeeds")
			vr.Assert((got != nil) == stored[idx(hashOf[t])], "get-reflects-store/queue/remove")
		}
	}
	// never eligible by storing alone: drain and compare with the queue calls
	rest, err := s.CacheRetrieveTransactions(2)
	vr.Assert(err == nil, "drain-succeeds")
	for _, g := range rest {
		i := idx(g.PayloadHash())
		retrieved[i]++
		vr.Assert(retrieved[i] <= queued[i], "stored-only-transactions-are-never-retrieved")
	}
}

// ZZ_C23_requeue: queue, retrieve, queue again, retrieve again: eligible both times.
func ZZ_C23_requeue() {
	s := ZZNewStore()
	s.custom = &config.Custom{}
	s.custom.Node.CacheTTL = 7200 // entries do not expire inside the scenario (TTL expiry is outside the claim)
	A := zzCacheTx(false)
	h := A.PayloadHash()
	vr.Assert(s.CacheStoreTransaction(A) == nil, "store")
	got, err := s.CacheRetrieveTransactions(1)
	vr.Assert(err == nil && len(got) == 0, "stored-only-not-eligible")
	vr.Assert(s.CacheQueueTransaction(A) == nil, "queue")
	got, err = s.CacheRetrieveTransactions(1)
	vr.Assert(err == nil && len(got) == 1 && got[0].PayloadHash() == h, "queued-is-eligible")
	got, err = s.CacheRetrieveTransactions(1)
	vr.Assert(err == nil && len(got) == 0, "returned-by-one-retrieval-only")
	vr.Assert(s.CacheQueueTransaction(A) == nil, "requeue")
	got, err = s.CacheRetrieveTransactions(1)
	vr.Assert(err == nil && len(got) == 1 && got[0].PayloadHash() == h, "requeue-after-retrieval-is-eligible-again")
	vr.Cover("requeue")
}
