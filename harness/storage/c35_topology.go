package storage

import (
	"github.com/MixinNetwork/mixin/common"
	"github.com/MixinNetwork/mixin/crypto"
	vr "github.com/MixinNetwork/mixin/zzrt"
)

// zzPutSnapshot performs the snapshot-body and topology part of writeSnapshot at a given position.
func zzPutSnapshot(s *BadgerStore, snap *common.SnapshotWithTopologicalOrder) {
	txn := s.snapshotsDB.NewTransaction(true)
	defer txn.Discard()
	key := graphSnapshotKey(snap.NodeId, snap.RoundNumber, snap.PayloadHash())
	if err := txn.Set(key, snap.VersionedMarshal()); err != nil {
		panic(err)
	}
	if err := writeTopology(txn, snap); err != nil {
		panic(err)
	}
	if err := txn.Commit(); err != nil {
		panic(err)
	}
}

// ZZ_C35: topology positions are a strictly increasing unique cursor.
func ZZ_C35() {
	s := ZZNewStore()
	type rec struct {
		pos  uint64
		hash crypto.Hash
	}
	var all []rec
	// positions are handed out by the node's counter (kernel TopoWrite: seq += 1 under its
	// lock): an arbitrary strictly increasing sequence; the first `pre` entries are the
	// pre-existing state, the rest are new writes
	maxPre, maxW := 1, 2
	if vr.Tier() > 0 {
		maxPre, maxW = 2, 3
	}
	pre := vr.Choose(0, maxPre)
	k := vr.Choose(1, maxW)
	last := uint64(0)
	for i := 0; i < pre+k; i++ {
		p := vr.U64()
		vr.Assume(p > last)
		last = p
		sn := &common.SnapshotWithTopologicalOrder{Snapshot: zzSnap(0), TopologicalOrder: p}
		zzPutSnapshot(s, sn)
		all = append(all, rec{p, sn.PayloadHash()})
	}
	// content addressing: distinct snapshots have distinct payload hashes (no BLAKE3 collision)
	for i := range all {
		for j := i + 1; j < len(all); j++ {
			vr.Assume(all[i].hash != all[j].hash)
		}
	}
	// an occupied position is never overwritten
	dup := &common.SnapshotWithTopologicalOrder{Snapshot: zzSnap(0), TopologicalOrder: all[vr.Choose(0, 1)*(len(all)-1)].pos} // first or last occupied position
	vr.Assert(vr.Catch(func() { zzPutSnapshot(s, dup) }), "occupied-position-panics-instead-of-overwriting")

	// listing from a cursor
	offset, count := vr.U64(), vr.U64()
	list, err := s.ReadSnapshotsSinceTopology(offset, count)
	if count > 500 {
		vr.Assert(err != nil, "count-limit-500")
		vr.Cover("count-too-large")
		return
	}
	vr.Assert(err == nil, "listing-succeeds")
	vr.Cover("listed")
	var want []rec
	for _, r := range all {
		if r.pos >= offset {
			want = append(want, r)
		}
	}
	n := len(want)
	if uint64(n) > count {
		n = int(count)
	}
	vr.Assert(len(list) == n, "listing-length-is-min(count,entries-from-cursor)")
	for i := range list {
		if i >= n {
			break
		}
		vr.Assert(list[i].TopologicalOrder == want[i].pos, "listing-in-increasing-position-order-from-cursor")
		vr.Assert(list[i].Hash == want[i].hash, "listed-hash-is-payload-hash")
		vr.Assert(list[i].Hash == list[i].PayloadHash(), "listed-hash-recomputes")
	}
	// lookup by hash gives the same position
	for _, r := range all {
		got, err := s.ReadSnapshot(r.hash)
		vr.Assert(err == nil && got != nil, "lookup-by-hash-finds-snapshot")
		if err == nil && got != nil {
			vr.Assert(got.TopologicalOrder == r.pos, "lookup-by-hash-gives-same-position")
		}
	}
	// the last position is what the counter restarts from
	txn := s.snapshotsDB.NewTransaction(false)
	vr.Assert(readLastTopology(txn) == all[len(all)-1].pos, "last-topology-is-highest-position")
	txn.Discard()
}
