package storage

import (
	"github.com/MixinNetwork/mixin/common"
	"github.com/MixinNetwork/mixin/crypto"
	vr "github.com/MixinNetwork/mixin/zzrt"
)

// ZZ_C26: node work is credited exactly once per snapshot however often a round's
// work is re-submitted with the same or a growing snapshot set.
func ZZ_C26() {
	s := ZZNewStore()
	N := zzHash()
	others := []crypto.Hash{zzHash(), zzHash()}
	vr.Assume(others[0] != N && others[1] != N && others[0] != others[1])
	const day = 3
	base := DAY_U64*day + 1000
	mk := func(i int) *common.SnapshotWork {
		w := &common.SnapshotWork{Hash: zzHash(), Timestamp: base + uint64(i)}
		vr.Assume(w.Hash.HasValue())
		w.Signers = []crypto.Hash{N}
		for j := range others {
			if vr.Bool() {
				w.Signers = append(w.Signers, others[j])
			}
		}
		return w
	}
	maxSnaps := 2
	if vr.Tier() > 0 {
		maxSnaps = 3
	}
	total := vr.Choose(1, maxSnaps)
	var all []*common.SnapshotWork
	for i := 0; i < total; i++ {
		w := mk(i)
		for _, o := range all {
			vr.Assume(o.Hash != w.Hash)
		}
		all = append(all, w)
	}
	round := uint64(1)
	// expected credits, counted independently per distinct snapshot
	wantLead := uint64(0)
	wantSign := []uint64{0, 0}
	credited := make([]bool, total)
	submit := func(k int, credit bool) {
		err := s.WriteRoundWork(N, round, all[:k], credit)
		vr.Assert(err == nil, "submission-succeeds")
		// the code's documented rule: the fresh part of a submission is credited iff credit is set
		fresh := false
		for i := 0; i < k; i++ {
			if !credited[i] {
				fresh = true
			}
		}
		for i := 0; i < k; i++ {
			if credited[i] {
				continue
			}
			credited[i] = true // seen from now on, credited or not
			if credit && fresh {
				wantLead++
				for _, sg := range all[i].Signers[1:] {
					for j := range others {
						if sg == others[j] {
							wantSign[j]++
						}
					}
				}
			}
		}
	}
	check := func(label string) {
		works, err := s.ListNodeWorks([]crypto.Hash{N, others[0], others[1]}, day)
		vr.Assert(err == nil, "list-works")
		vr.Assert(works[N][0] == wantLead, label+"-proposer-credit-once-per-snapshot")
		vr.Assert(works[others[0]][1] == wantSign[0], label+"-signer0-credit-once-per-snapshot")
		vr.Assert(works[others[1]][1] == wantSign[1], label+"-signer1-credit-once-per-snapshot")
		vr.Assert(works[N][1] == 0, label+"-proposer-gets-no-signing-credit-for-own-snapshots")
	}
	k1 := vr.Choose(1, total)
	c1 := vr.Bool()
	submit(k1, c1)
	check("first")
	// re-submission of the same set (crash / retry): nothing changes
	submit(k1, vr.Bool())
	check("repeat")
	// growing set
	k2 := vr.Choose(k1, total)
	submit(k2, vr.Bool())
	check("grown")
	submit(k2, true)
	check("grown-repeat")
	off, err := s.ReadWorkOffset(N)
	vr.Assert(err == nil && off == round, "offset-is-the-round")
	vr.Cover("done")
}
