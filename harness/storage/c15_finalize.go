package storage

import (
	"bytes"
	"encoding/json"
	"fmt"
	"math/big"

	"github.com/MixinNetwork/mixin/common"
	"github.com/MixinNetwork/mixin/crypto"
	vr "github.com/MixinNetwork/mixin/zzrt"
)

var zzAmtBytes = 2
var zzAmtFullWidth = false // amounts use exactly zzAmtBytes bytes (no shorter encodings): fewer encoder paths
var zzFixedAsset *crypto.Hash

func zzAmount2() common.Integer {
	// any positive amount below 256^zzAmtBytes units
	b := vr.BigInt(zzAmtBytes)
	vr.Assume(b.Sign() > 0)
	if zzAmtFullWidth {
		vr.Assume(b.Cmp(new(big.Int).Lsh(big.NewInt(1), uint(8*(zzAmtBytes-1)))) >= 0)
	}
	return common.ZZIntegerFromBig(b)
}

type zzFinTx struct {
	ver     *common.VersionedTransaction
	hash    crypto.Hash
	kind    int // 0 script, 1 deposit, 2 withdrawal submit
	preFin  bool
	preSnap crypto.Hash
	preUtxo [][]byte
	preTopo uint64
}

func zzKeyPtr() *crypto.Key { k := crypto.Key(zzHash()); return &k }

// zzFinalizableTx builds a stored transaction of one of the batchable kinds.
func zzFinalizableTx(asset crypto.Hash, kind int) *common.VersionedTransaction {
	tx := common.Transaction{Version: common.TxVersionHashSignature, Asset: asset}
	scriptOut := func() *common.Output {
		return &common.Output{Type: common.OutputTypeScript, Amount: zzAmount2(), Keys: []*crypto.Key{zzKeyPtr()}, Mask: crypto.Key(zzHash()), Script: common.NewThresholdScript(1)}
	}
	switch kind {
	case 0:
		tx.Inputs = []*common.Input{{Hash: zzHash(), Index: 0}}
		tx.Outputs = []*common.Output{scriptOut()}
	case 1:
		d := &common.DepositData{Chain: zzHash(), AssetKey: "0xkey", Transaction: "txid", Index: uint64(vr.Choose(0, 1)), Amount: zzAmount2()}
		tx.Inputs = []*common.Input{{Deposit: d}}
		o := scriptOut()
		o.Amount = d.Amount
		tx.Outputs = []*common.Output{o}
	case 3: // withdrawal claim: the fee output, referencing a (stored, finalized) submit transaction
		tx.Inputs = []*common.Input{{Hash: zzHash(), Index: 0}}
		o := scriptOut()
		o.Type = common.OutputTypeWithdrawalClaim
		tx.Outputs = []*common.Output{o}
	case 2:
		tx.Inputs = []*common.Input{{Hash: zzHash(), Index: 0}}
		sub := &common.Output{Type: common.OutputTypeWithdrawalSubmit, Amount: zzAmount2(), Withdrawal: &common.WithdrawalData{Address: "addr", Tag: "tag"}}
		tx.Outputs = []*common.Output{sub, scriptOut()}
	}
	return &common.VersionedTransaction{SignedTransaction: common.SignedTransaction{Transaction: tx}}
}

type zzFinEnv struct {
	s       *BadgerStore
	node    crypto.Hash
	asset   crypto.Hash
	chain   crypto.Hash
	total   common.Integer
	txs     []*zzFinTx
	snap    *common.SnapshotWithTopologicalOrder
	signers []crypto.Hash
}

func zzSetTotal(s *BadgerStore, asset crypto.Hash, total common.Integer) {
	zzSet(s, graphAssetTotalKey(asset), []byte(total.String()))
}

// zzFinSetup prepares a store on which WriteSnapshot(env.snap) passes its debug assertions.
func zzFinSetup(kinds []int, allowPreFinalized bool) *zzFinEnv {
	e := &zzFinEnv{s: ZZNewStore(), node: zzHash(), asset: zzHash(), chain: zzHash()}
	if zzFixedAsset != nil {
		e.asset = *zzFixedAsset
	}
	s := e.s
	vr.Assume(e.chain.HasValue() && e.node.HasValue())
	// asset record and total (ledger invariant: every asset in use has one)
	info, err := json.Marshal(&common.Asset{Chain: e.chain, AssetKey: "0xkey"})
	if err != nil {
		panic(err)
	}
	zzSet(s, graphAssetInfoKey(e.asset), info)
	tb := vr.BigInt(zzAmtBytes + 1)
	if zzAmtFullWidth {
		vr.Assume(tb.Cmp(new(big.Int).Lsh(big.NewInt(1), uint(8*(zzAmtBytes-1)))) >= 0 && tb.Cmp(new(big.Int).Lsh(big.NewInt(1), uint(8*zzAmtBytes))) < 0)
	}
	e.total = common.ZZIntegerFromBig(tb)
	zzSetTotal(s, e.asset, e.total)
	// head round of the node
	round := vr.U64()
	vr.Assume(round > 0)
	refs := &common.RoundLink{Self: zzHash(), External: zzHash()}
	{
		txn := s.snapshotsDB.NewTransaction(true)
		if err := writeRound(txn, e.node, &common.Round{Hash: e.node, NodeId: e.node, Number: round, References: refs}); err != nil {
			panic(err)
		}
		if err := txn.Commit(); err != nil {
			panic(err)
		}
	}
	sn := &common.Snapshot{Version: common.SnapshotVersionCommonEncoding, NodeId: e.node, RoundNumber: round, References: refs, Timestamp: vr.U64()}
	for _, k := range kinds {
		ver := zzFinalizableTx(e.asset, k)
		if k == 1 {
			ver.Inputs[0].Deposit.Chain = e.chain // the asset's own chain
		}
		if k == 3 {
			kk := crypto.Key(zzHash())
			sub := zzOwnerTx(&kk, 7)
			if err := s.ZZPutTransaction(sub); err != nil {
				panic(err)
			}
			fin := zzHash()
			zzSet(s, graphFinalizationKey(sub.PayloadHash()), fin[:])
			ver.References = []crypto.Hash{sub.PayloadHash()}
			vr.Assume(sub.PayloadHash() != ver.PayloadHash() && sub.PayloadHash().HasValue()) // different transactions, different hashes
		}
		ft := &zzFinTx{ver: ver, hash: ver.PayloadHash(), kind: k}
		for _, o := range e.txs {
			vr.Assume(o.hash != ft.hash)
		}
		for _, ex := range zzGhostExceptions {
			vr.Assume(ft.hash.String() != ex) // not one of the three historical key-reuse exceptions
		}
		zzSet(s, graphTransactionKey(ft.hash), ver.Marshal())
		if allowPreFinalized && vr.Bool() {
			// already finalized by an earlier snapshot: its record and outputs exist, possibly locked by a spender
			ft.preFin = true
			// ledger invariant: the finalization record names a stored snapshot (of another node,
			// at an arbitrary time and topology position) that contains the transaction
			psn := &common.Snapshot{Version: common.SnapshotVersionCommonEncoding, NodeId: zzHash(), RoundNumber: vr.U64(),
				References: &common.RoundLink{Self: zzHash(), External: zzHash()}, Timestamp: vr.U64(), Transactions: []crypto.Hash{ft.hash}}
			vr.Assume(psn.NodeId != e.node)
			ft.preTopo = vr.U64()
			if err := s.ZZPutSnapshot(psn, ft.preTopo); err != nil {
				panic(err)
			}
			ft.preSnap = psn.PayloadHash()
			zzSet(s, graphFinalizationKey(ft.hash), ft.preSnap[:])
			for _, u := range ver.UnspentOutputs() {
				u.LockHash = zzHash()
				val := u.Marshal()
				ft.preUtxo = append(ft.preUtxo, val)
				zzSet(s, graphUtxoKey(u.Hash, u.Index), val)
			}
		}
		e.txs = append(e.txs, ft)
		sn.Transactions = append(sn.Transactions, ft.hash)
	}
	if len(sn.Transactions) == 2 && bytes.Compare(sn.Transactions[0][:], sn.Transactions[1][:]) > 0 {
		// snapshots list their transactions in increasing hash order (real hashes in replay)
		sn.Transactions[0], sn.Transactions[1] = sn.Transactions[1], sn.Transactions[0]
		e.txs[0], e.txs[1] = e.txs[1], e.txs[0]
	}
	sn.Hash = sn.PayloadHash()
	e.snap = &common.SnapshotWithTopologicalOrder{Snapshot: sn, TopologicalOrder: vr.U64()}
	for _, ft := range e.txs {
		if ft.preFin {
			vr.Assume(ft.preTopo < e.snap.TopologicalOrder) // positions are handed out in increasing order
			vr.Assume(ft.preSnap != sn.Hash)
		}
	}
	e.signers = []crypto.Hash{e.node}
	return e
}

// ZZ_C15: finalizing a snapshot is atomic and idempotent.
func ZZ_C15() {
	var kinds []int
	n := vr.Choose(1, 2)
	narrow := n == 2 && vr.Tier() == 0 // quick tier: two-transaction snapshots only of fresh ordinary transactions
	for i := 0; i < n; i++ {
		if narrow {
			kinds = append(kinds, 0)
		} else {
			kinds = append(kinds, vr.Choose(0, 2))
		}
	}
	e := zzFinSetup(kinds, !narrow)
	s := e.s
	before := zzDump(s)
	var err error
	if vr.Catch(func() { err = s.WriteSnapshot(e.snap, e.signers) }) {
		vr.Cover("panicked") // a crash here is property C16's subject
		return
	}
	after := zzDump(s)
	if err != nil {
		vr.Cover("failed")
		vr.Assert(zzSameDump(before, after), "failed-write-applies-nothing")
		return
	}
	vr.Cover("written")
	snapHash := e.snap.PayloadHash()
	for _, ft := range e.txs {
		fin, ok := zzGet(s, graphFinalizationKey(ft.hash))
		vr.Assert(ok, "finalization-record-present")
		_, uq := zzGet(s, graphUniqueKey(e.node, ft.hash))
		vr.Assert(uq, "per-node-uniqueness-record-present")
		if ft.preFin {
			vr.Cover("already-finalized")
			vr.Assert(bytes.Equal(fin, ft.preSnap[:]), "first-finalization-record-kept")
			for i, u := range ft.ver.UnspentOutputs() {
				now, ok := zzGet(s, graphUtxoKey(u.Hash, u.Index))
				vr.Assert(ok && bytes.Equal(now, ft.preUtxo[i]), "outputs-of-finalized-transaction-not-applied-again")
			}
		} else {
			vr.Assert(bytes.Equal(fin, snapHash[:]), "finalization-record-names-this-snapshot")
			for _, u := range ft.ver.UnspentOutputs() {
				now, ok := zzGet(s, graphUtxoKey(u.Hash, u.Index))
				vr.Assert(ok, "new-output-materialised")
				if ok {
					got, derr := common.UnmarshalUTXO(now)
					vr.Assert(derr == nil && got != nil && !got.LockHash.HasValue(), "new-output-unlocked")
				}
				for _, k := range u.Keys {
					by, ok := zzGet(s, graphGhostKey(*k))
					vr.Assert(ok && bytes.Equal(by, ft.hash[:]), "output-key-bound-to-its-transaction")
				}
			}
		}
	}
	if len(e.txs) > 0 {
		allPre := true
		for _, ft := range e.txs {
			allPre = allPre && ft.preFin
		}
		if allPre {
			_, tot, terr := s.ReadAssetWithBalance(e.asset)
			vr.Assert(terr == nil && tot.Cmp(e.total) == 0, "totals-of-finalized-transactions-not-applied-again")
		}
	}
	_, ok := zzGet(s, graphSnapshotKey(e.node, e.snap.RoundNumber, snapHash))
	vr.Assert(ok, "snapshot-body-stored")
	tv, ok := zzGet(s, graphTopologyKey(e.snap.TopologicalOrder))
	vr.Assert(ok && bytes.Equal(tv, graphSnapshotKey(e.node, e.snap.RoundNumber, snapHash)), "topology-entry-points-at-snapshot")
	_, ok = zzGet(s, graphSnapTopologyKey(snapHash))
	vr.Assert(ok, "reverse-topology-entry")
	_, ok = zzGet(s, graphWorkSnapshotKey(e.node, e.snap.RoundNumber, e.snap.Timestamp))
	vr.Assert(ok, "work-record")
}

// ZZ_C17: one finalization step keeps "recorded total = genesis + deposits + mints - withdrawal submissions".
func ZZ_C17() {
	kind := vr.Choose(0, 3)
	e := zzFinSetup([]int{kind}, true)
	s := e.s
	ft := e.txs[0]
	if ft.preFin {
		// included again by another node's snapshot: counted once, whatever the two timestamps
		var err error
		if vr.Catch(func() { err = s.WriteSnapshot(e.snap, e.signers) }) {
			vr.Assert(false, "re-inclusion-does-not-crash")
			return
		}
		vr.Assert(err == nil, "re-inclusion-succeeds")
		_, now, rerr := s.ReadAssetWithBalance(e.asset)
		vr.Assert(rerr == nil && now.Cmp(e.total) == 0, "re-included-transaction-is-not-counted-again")
		vr.Cover("re-included")
		return
	}
	if kind == 2 {
		// supply invariant: the total covers every unconsumed output, hence the inputs being spent,
		// and validation (C01) made inputs equal outputs; so the total covers the submitted amount
		vr.Assume(e.total.Cmp(ft.ver.Outputs[0].Amount.Add(ft.ver.Outputs[1].Amount)) >= 0)
	}
	var err error
	if vr.Catch(func() { err = s.WriteSnapshot(e.snap, e.signers) }) {
		vr.Cover("panicked")
		vr.Assert(kind == 1, "only-a-deposit-can-hit-the-capacity-panic") // C16's subject
		return
	}
	vr.Assert(err == nil, "finalization-succeeds")
	_, now, rerr := s.ReadAssetWithBalance(e.asset)
	vr.Assert(rerr == nil, "total-readable")
	switch kind {
	case 3:
		vr.Cover("claim")
		vr.Assert(now.Cmp(e.total) == 0, "withdrawal-claim-leaves-total-unchanged")
	case 0:
		vr.Cover("transfer")
		vr.Assert(now.Cmp(e.total) == 0, "transfer-leaves-total-unchanged")
	case 1:
		vr.Cover("deposit")
		vr.Assert(now.Cmp(e.total.Add(ft.ver.Inputs[0].Deposit.Amount)) == 0, "deposit-adds-its-amount")
		vr.Assert(now.Cmp(common.GetAssetCapacity(e.asset)) <= 0, "total-within-capacity")
	case 2:
		vr.Cover("withdrawal")
		vr.Assert(now.Cmp(e.total.Sub(ft.ver.Outputs[0].Amount)) == 0 || e.total.Cmp(ft.ver.Outputs[0].Amount) == 0, "withdrawal-subtracts-the-submitted-amount")
		vr.Assert(now.Sign() >= 0, "total-never-negative")
	}
	// outputs not consumed: exactly the materialised ones
	sum := common.Zero
	for _, u := range ft.ver.UnspentOutputs() {
		_, ok := zzGet(s, graphUtxoKey(u.Hash, u.Index))
		if !ok && vr.Replaying() {
			back, _, rerr := s.ReadTransaction(ft.hash)
			println("ZZ-NOTE missing utxo:", u.Hash.String(), u.Index, "stored tx hash:", back != nil && back.PayloadHash() == ft.hash, "rerr:", rerr != nil, "type:", int(u.Type))
		}
		vr.Assert(ok, "unspent-output-materialised")
		sum = sum.Add(u.Amount)
	}
	if kind == 2 {
		vr.Assert(sum.Cmp(ft.ver.Outputs[1].Amount) == 0, "submitted-amount-is-not-an-output")
	}
}

// ZZ_C16_deposits: two deposits of one asset that each pass the real validation rule
// against the same ledger state must be finalizable together.
func ZZ_C16_deposits() {
	// Bitcoin: capacity 2500.00000000 = 2.5e11 units; amounts and balance range over 5/6 bytes
	zzAmtBytes = 5
	zzAmtFullWidth = true
	zzFixedAsset = &common.BitcoinAssetId
	e := zzFinSetup([]int{1, 1}, false)
	s := e.s
	if vr.Bool() {
		// the asset key of the second deposit differs from the registered one in letter case only
		// (validation and finalization must agree on whether that is the same asset)
		e.txs[1].ver.Inputs[0].Deposit.AssetKey = "0xKEY"
		e.txs[1].hash = e.txs[1].ver.PayloadHash()
		zzSet(s, graphTransactionKey(e.txs[1].hash), e.txs[1].ver.Marshal())
		e.snap.Transactions[1] = e.txs[1].hash
		if bytes.Compare(e.snap.Transactions[0][:], e.snap.Transactions[1][:]) > 0 {
			e.snap.Transactions[0], e.snap.Transactions[1] = e.snap.Transactions[1], e.snap.Transactions[0]
		}
		vr.Assume(e.snap.Transactions[0] != e.snap.Transactions[1])
		vr.Cover("asset-key-case-variant")
	}
	for _, ft := range e.txs {
		verr := common.ZZVerifyDepositData(&ft.ver.Transaction, s)
		if verr != nil && vr.Replaying() {
			println("ZZ-NOTE deposit validation:", verr.Error())
		}
		vr.Assume(verr == nil)
	}
	// validated together also means the one-time output keys were reserved for each transaction (C04)
	vr.Assume(*e.txs[0].ver.Outputs[0].Keys[0] != *e.txs[1].ver.Outputs[0].Keys[0])
	vr.Cover("both-validate")
	if e.total.Add(e.txs[0].ver.Inputs[0].Deposit.Amount).Add(e.txs[1].ver.Inputs[0].Deposit.Amount).Cmp(common.GetAssetCapacity(e.asset)) > 0 {
		vr.Cover("kf:deposits-jointly-exceed-capacity")
	}
	var err error
	panicked := vr.Catch(func() {
		if vr.Replaying() {
			defer func() {
				if r := recover(); r != nil {
					println("ZZ-NOTE panic:", fmt.Sprint(r))
					panic(r)
				}
			}()
		}
		err = s.WriteSnapshot(e.snap, e.signers)
	})
	vr.Assert(!panicked, "finalizing-validated-deposits-does-not-crash")
	if err != nil && vr.Replaying() {
		println("ZZ-NOTE write error:", err.Error())
	}
	vr.Assert(err == nil, "finalizing-validated-deposits-succeeds")
}
