package storage

import (
	"bytes"

	"github.com/MixinNetwork/mixin/common"
	"github.com/MixinNetwork/mixin/crypto"
	vr "github.com/MixinNetwork/mixin/zzrt"
)

// ZZ_C03: a slot (unspent output / deposit id / mint batch) is reserved by at most one
// pending transaction. A sequence of lock requests with arbitrary transaction hashes
// and fork flags is checked step by step against a reference model; since every
// request is one atomic Badger transaction under the store mutex, "all interleavings of
// concurrent admissions" are all orders of the requests, which the symbolic sequence covers.
func ZZ_C03() {
	s := ZZNewStore()
	kind := vr.Choose(0, 2) // 0 UTXO, 1 deposit, 2 mint
	var zero crypto.Hash
	holder := zero // reference model: who holds the slot
	finalized := map[crypto.Hash]bool{}
	_ = finalized

	// the slot
	utxoHash, utxoIndex := zzHash(), uint(vr.Choose(0, 1))
	dep := &common.DepositData{Chain: zzHash(), AssetKey: "0xkey", Transaction: "txid", Index: uint64(vr.Choose(0, 1))}
	dep.Amount = common.NewInteger(1)
	mint := &common.MintData{Group: "UNIVERSAL", Batch: vr.U64()}
	mint.Amount = common.NewInteger(uint64(vr.Choose(1, 2)))

	// pre-state: the slot may already be held by some transaction A
	preHeld := vr.Bool()
	A := zzHash()
	vr.Assume(A.HasValue())
	switch kind {
	case 0:
		u := &common.UTXOWithLock{}
		u.Hash, u.Index = utxoHash, utxoIndex
		u.Type = common.OutputTypeScript
		u.Amount = common.NewInteger(1)
		k := crypto.Key(zzHash())
		u.Keys = []*crypto.Key{&k}
		u.Mask = crypto.Key(zzHash())
		u.Script = common.NewThresholdScript(1)
		u.Asset = zzHash()
		if preHeld {
			u.LockHash = A
		}
		zzSet(s, graphUtxoKey(utxoHash, utxoIndex), u.Marshal())
	case 1:
		if preHeld {
			zzSet(s, graphDepositKey(dep), A[:])
		}
	case 2:
		if preHeld {
			zzSet(s, graphMintKey(mint.Batch), mint.Distribute(A).Marshal())
		}
	}
	if preHeld {
		holder = A
		if vr.Bool() { // A's body is stored
			zzSet(s, graphTransactionKey(A), []byte{1})
		}
	}
	aFinal := preHeld && vr.Bool()
	if aFinal {
		zzSet(s, graphFinalizationKey(A), []byte{1})
	}
	isFinal := func(h crypto.Hash) bool { return aFinal && h == A }

	maxReq := 2
	if vr.Tier() > 0 {
		maxReq = 3
	}
	n := vr.Choose(1, maxReq)
	for i := 0; i < n; i++ {
		B := zzHash()
		vr.Assume(B.HasValue())
		fork := vr.Bool()
		before := zzDump(s)
		var err error
		switch kind {
		case 0:
			err = s.LockUTXOs([]*common.Input{{Hash: utxoHash, Index: utxoIndex}}, B, fork)
		case 1:
			err = s.LockDepositInput(dep, B, fork)
		case 2:
			err = s.LockMintInput(mint, B, fork)
		}
		after := zzDump(s)
		switch {
		case !holder.HasValue():
			vr.Cover("free-slot")
			vr.Assert(err == nil, "free-slot-is-granted")
			holder = B
		case holder == B:
			vr.Cover("same-transaction")
			vr.Assert(err == nil, "re-reserving-is-idempotent")
			vr.Assert(zzSameDump(before, after), "re-reserving-changes-nothing")
		case !fork:
			vr.Cover("conflict")
			vr.Assert(err != nil, "ordinary-admission-against-reserved-slot-fails")
			vr.Assert(zzSameDump(before, after), "failed-admission-changes-nothing")
		case isFinal(holder):
			vr.Cover("takeover-of-finalized")
			vr.Assert(err != nil, "takeover-never-displaces-a-finalized-transaction")
			vr.Assert(zzSameDump(before, after), "failed-takeover-changes-nothing")
		default:
			vr.Cover("takeover-of-pending")
			vr.Assert(err == nil, "takeover-of-pending-succeeds")
			vr.Assert(!zzHas(s, graphTransactionKey(holder)), "displaced-transaction-body-removed-in-the-same-write")
			holder = B
		}
		// the observer agrees with the model
		switch kind {
		case 0:
			u, rerr := s.ReadUTXOLock(utxoHash, utxoIndex)
			vr.Assert(rerr == nil && u != nil && u.LockHash == holder, "utxo-names-the-holder")
		case 1:
			h, rerr := s.ReadDepositLock(dep)
			vr.Assert(rerr == nil && h == holder, "deposit-names-the-holder")
		case 2:
			rt := s.snapshotsDB.NewTransaction(false)
			d, rerr := readMintInput(rt, mint) // (ReadLastMintDistribution only reports finalized mints)
			rt.Discard()
			vr.Assert(rerr == nil && d != nil && d.Transaction == holder, "mint-batch-names-the-holder")
		}
	}
}

// ZZ_C03_keys: deposits that differ in chain, transaction id or index use different slots.
func ZZ_C03_keys() {
	a := &common.DepositData{Chain: zzHash(), Transaction: string(vr.Bytes(2)), Index: uint64(vr.Choose(0, 1))}
	b := &common.DepositData{Chain: zzHash(), Transaction: string(vr.Bytes(2)), Index: uint64(vr.Choose(0, 1))}
	ka, kb := graphDepositKey(a), graphDepositKey(b)
	same := a.Chain == b.Chain && a.Transaction == b.Transaction && a.Index == b.Index
	if same {
		vr.Cover("same-deposit")
		vr.Assert(bytes.Equal(ka, kb), "same-deposit-same-slot")
		return
	}
	vr.Cover("different-deposit")
	// under hash injectivity the slot keys differ iff the hashed identifier strings differ:
	// compare the identifier strings the key is derived from
	ia := a.Chain.String() + ":" + a.Transaction + ":" + string(rune('0'+a.Index))
	ib := b.Chain.String() + ":" + b.Transaction + ":" + string(rune('0'+b.Index))
	vr.Assert(ia != ib, "identifier-strings-differ")
}

// ZZ_C03_multi: one admission request over two outputs whose reservations are arbitrary
// (free, held by the requester, held by another pending or finalized transaction): the
// request is granted iff every slot is individually grantable, it is all-or-nothing, and
// afterwards every slot names its model holder.
func ZZ_C03_multi() {
	s := ZZNewStore()
	B := zzHash()
	vr.Assume(B.HasValue())
	type slot struct {
		hash   crypto.Hash
		index  uint
		holder crypto.Hash
		final  bool
	}
	slots := make([]*slot, 2)
	for i := range slots {
		sl := &slot{hash: zzHash(), index: uint(i)}
		u := &common.UTXOWithLock{}
		u.Hash, u.Index = sl.hash, sl.index
		u.Type = common.OutputTypeScript
		u.Amount = common.NewInteger(1)
		k := crypto.Key(zzHash())
		u.Keys = []*crypto.Key{&k}
		u.Mask = crypto.Key(zzHash())
		u.Script = common.NewThresholdScript(1)
		u.Asset = zzHash()
		switch vr.Choose(0, 2) {
		case 1:
			sl.holder = B // a stale reservation of the requester itself
		case 2:
			sl.holder = zzHash()
			vr.Assume(sl.holder.HasValue() && sl.holder != B)
			if vr.Bool() {
				zzSet(s, graphTransactionKey(sl.holder), []byte{1})
			}
			if vr.Bool() {
				sl.final = true
				zzSet(s, graphFinalizationKey(sl.holder), []byte{1})
			}
		}
		u.LockHash = sl.holder
		zzSet(s, graphUtxoKey(sl.hash, sl.index), u.Marshal())
		slots[i] = sl
	}
	vr.Assume(slots[0].hash != slots[1].hash)
	if slots[0].holder.HasValue() && slots[1].holder.HasValue() && slots[0].holder != B && slots[1].holder != B {
		// the same other transaction may hold both
		if vr.Bool() {
			vr.Assume(slots[0].holder == slots[1].holder && slots[0].final == slots[1].final)
		} else {
			vr.Assume(slots[0].holder != slots[1].holder)
		}
	}
	fork := vr.Bool()
	grantable := true
	for _, sl := range slots {
		ok := !sl.holder.HasValue() || sl.holder == B || (fork && !sl.final)
		grantable = grantable && ok
	}
	before := zzDump(s)
	err := s.LockUTXOs([]*common.Input{{Hash: slots[0].hash, Index: slots[0].index}, {Hash: slots[1].hash, Index: slots[1].index}}, B, fork)
	after := zzDump(s)
	if !grantable {
		vr.Cover("refused")
		vr.Assert(err != nil, "request-with-an-ungrantable-input-is-refused")
		vr.Assert(zzSameDump(before, after), "refused-request-changes-nothing")
		return
	}
	vr.Cover("granted")
	vr.Assert(err == nil, "request-with-all-inputs-grantable-is-granted")
	for _, sl := range slots {
		u, rerr := s.ReadUTXOLock(sl.hash, sl.index)
		vr.Assert(rerr == nil && u != nil && u.LockHash == B, "every-input-names-the-requester")
		if sl.holder.HasValue() && sl.holder != B {
			vr.Assert(!zzHas(s, graphTransactionKey(sl.holder)), "displaced-transaction-body-removed-in-the-same-write")
		}
	}
}
