package storage

import (
	"bytes"

	"github.com/MixinNetwork/mixin/common"
	"github.com/MixinNetwork/mixin/crypto"
	vr "github.com/MixinNetwork/mixin/zzrt"
)

var zzGhostExceptions = []string{
	"c63b6373652def5999c1d951fcb8f064db67b7d18565847b921b21639e15dddd",
	"60deaf2471bb0b6481efe9080d8852b020ab2941e7faae21989d2404f34284ee",
	"a558b1efbe27eb6a6f902fd97d4b7e2e3099e6edde1fe6e8e41204e0685fe426",
}

// ZZ_C04: a one-time output key is bound to at most one transaction.
func ZZ_C04() {
	s := ZZNewStore()
	nk := vr.Choose(1, 2)
	var keys []*crypto.Key
	for i := 0; i < nk; i++ {
		keys = append(keys, zzKeyPtr())
	}
	// pre-state: each key free or already bound to some transaction
	bound := make([]bool, nk)
	owner := make([]crypto.Hash, nk)
	stored := make([]bool, nk)
	for i, k := range keys {
		if i > 0 && *keys[i] == *keys[0] {
			bound[i], owner[i], stored[i] = bound[0], owner[0], stored[0]
			continue
		}
		if vr.Bool() {
			bound[i] = true
			// the owner is a bare reservation, a stored but unfinalized transaction, or a finalized one
			switch vr.Choose(0, 2) {
			case 0:
				owner[i] = zzHash()
				vr.Cover("owner-reservation-only")
			case 1:
				otx := zzOwnerTx(k, byte(i))
				owner[i] = otx.PayloadHash()
				vr.Assert(s.ZZPutTransaction(otx) == nil, "setup-owner-body")
				stored[i] = true
				vr.Cover("owner-pending-with-body")
			default:
				otx := zzOwnerTx(k, byte(i))
				owner[i] = otx.PayloadHash()
				vr.Assert(s.ZZPutTransaction(otx) == nil, "setup-owner-body")
				fin := zzHash()
				zzSet(s, graphFinalizationKey(owner[i]), fin[:])
				stored[i] = true
				vr.Cover("owner-finalized")
			}
			vr.Assume(owner[i].HasValue())
			zzSet(s, graphGhostKey(*k), owner[i][:])
		}
	}
	tx := zzHash()
	vr.Assume(tx.HasValue())
	fork := vr.Bool()
	exception := false
	for _, e := range zzGhostExceptions {
		exception = exception || tx.String() == e
	}
	before := zzDump(s)
	mode := vr.Choose(0, 1)
	var err error
	if mode == 0 {
		err = s.LockGhostKeys(keys, tx, fork)
	} else {
		// finalization path: materialising an output relocks its keys with fork=true
		u := &common.UTXOWithLock{}
		u.Hash, u.Index = tx, 0
		u.Type = common.OutputTypeScript
		u.Amount = common.NewInteger(1)
		u.Keys = keys
		u.Script = common.NewThresholdScript(1)
		u.Asset = zzHash()
		ver := &common.VersionedTransaction{}
		if vr.Bool() {
			// a keyed kernel output: the node-remove output of an accepted node (its keys are one-time keys too)
			u.Type = common.OutputTypeNodeRemove
			signer, payee := crypto.Key(zzHash()), crypto.Key(zzHash())
			zzSet(s, nodeStateQueueKey(signer, 1), nodeEntryValue(payee, zzHash(), common.NodeStateAccepted))
			ver.Extra = append(append([]byte{}, signer[:]...), payee[:]...)
			before = zzDump(s)
			vr.Cover("node-remove-output")
		}
		txn := s.snapshotsDB.NewTransaction(true)
		err = writeUTXO(txn, u, ver, 2, false)
		if err == nil {
			err = txn.Commit()
		} else {
			txn.Discard()
		}
		fork = true
	}
	after := zzDump(s)
	dup := nk == 2 && *keys[0] == *keys[1]
	if err != nil {
		vr.Cover("refused")
		vr.Assert(zzSameDump(before, after), "refusal-changes-nothing")
		return
	}
	vr.Cover("granted")
	if mode == 0 {
		vr.Assert(!dup, "a-repeated-key-in-one-request-is-refused")
	}
	for i, k := range keys {
		by, ok := zzGet(s, graphGhostKey(*k))
		vr.Assert(ok, "key-is-bound-after-success")
		if bound[i] {
			// an existing binding is never overwritten ...
			vr.Assert(bytes.Equal(by, owner[i][:]), "existing-binding-never-overwritten")
			// ... and a different transaction is only let through for the three historical exceptions
			vr.Assert(owner[i] == tx || (fork && exception), "key-of-another-transaction-is-refused")
			if stored[i] {
				vr.Assert(zzHas(s, graphTransactionKey(owner[i])), "owner-transaction-body-kept")
			}
		} else {
			vr.Assert(bytes.Equal(by, tx[:]), "free-key-bound-to-this-transaction")
		}
	}
	if mode == 1 {
		_, ok := zzGet(s, graphUtxoKey(tx, 0))
		vr.Assert(ok, "output-materialised")
	}
}

// zzOwnerTx: a small transaction paying to key k (its hash is a function of a symbolic extra byte).
func zzOwnerTx(k *crypto.Key, seq byte) *common.VersionedTransaction {
	tx := common.Transaction{Version: common.TxVersionHashSignature, Asset: common.XINAssetId}
	var in crypto.Hash
	in[0], in[1] = 0x77, seq
	tx.Inputs = []*common.Input{{Hash: in, Index: 0}}
	var mask crypto.Key
	mask[0] = 0x55
	tx.Outputs = []*common.Output{{Type: common.OutputTypeScript, Amount: common.NewInteger(1), Keys: []*crypto.Key{k}, Mask: mask, Script: common.NewThresholdScript(1)}}
	tx.Extra = []byte{vr.U8()}
	return &common.VersionedTransaction{SignedTransaction: common.SignedTransaction{Transaction: tx}}
}
