package storage

import (
	"github.com/MixinNetwork/mixin/common"
	"github.com/MixinNetwork/mixin/config"
	"github.com/MixinNetwork/mixin/crypto"
	vr "github.com/MixinNetwork/mixin/zzrt"
)

type zzNodeRec struct {
	signer, payee crypto.Key
	tx            crypto.Hash
	ts            uint64
	state         string
}

// ZZ_C27: inductive step on the durable membership history.
func ZZ_C27() {
	s := ZZNewStore()
	var recs []*zzNodeRec
	put := func(r *zzNodeRec) {
		zzSet(s, nodeStateQueueKey(r.signer, r.ts), nodeEntryValue(r.payee, r.tx, r.state))
		recs = append(recs, r)
	}
	newKey := func() crypto.Key { return crypto.Key(zzHash()) }
	last := uint64(0)
	nextTs := func() uint64 {
		t := vr.U64()
		vr.Assume(t > last && t < 1<<61)
		last = t
		return t
	}
	// a lifecycle-consistent history: 1-2 accepted founders, then 0-2 further events
	type live struct {
		signer, payee crypto.Key
		state         string
	}
	var cur []*live
	for i := vr.Choose(1, 2); i > 0; i-- {
		l := &live{newKey(), newKey(), common.NodeStateAccepted}
		cur = append(cur, l)
		put(&zzNodeRec{l.signer, l.payee, zzHash(), nextTs(), l.state})
	}
	if vr.Bool() {
		// an earlier candidate that pledged and was cancelled (two records)
		l := &live{newKey(), newKey(), common.NodeStateCancelled}
		cur = append(cur, l)
		put(&zzNodeRec{l.signer, l.payee, zzHash(), nextTs(), common.NodeStatePledging})
		put(&zzNodeRec{l.signer, l.payee, zzHash(), nextTs(), common.NodeStateCancelled})
		vr.Cover("history-has-a-cancelled-node")
	}
	maxEv := 1
	if vr.Tier() > 0 {
		maxEv = 2
	}
	for e := vr.Choose(0, maxEv); e > 0; e-- {
		var pl *live
		for _, l := range cur {
			if l.state == common.NodeStatePledging {
				pl = l
			}
		}
		switch {
		case pl != nil && vr.Bool():
			pl.state = common.NodeStateAccepted
			put(&zzNodeRec{pl.signer, pl.payee, zzHash(), nextTs(), pl.state})
		case pl != nil:
			pl.state = common.NodeStateCancelled
			put(&zzNodeRec{pl.signer, pl.payee, zzHash(), nextTs(), pl.state})
		case vr.Bool():
			l := &live{newKey(), newKey(), common.NodeStatePledging}
			cur = append(cur, l)
			put(&zzNodeRec{l.signer, l.payee, zzHash(), nextTs(), l.state})
		default:
			var acc []*live
			for _, l := range cur {
				if l.state == common.NodeStateAccepted {
					acc = append(acc, l)
				}
			}
			l := acc[vr.Choose(0, len(acc)-1)]
			l.state = common.NodeStateRemoved
			put(&zzNodeRec{l.signer, l.payee, zzHash(), nextTs(), l.state})
		}
	}
	// signer keys of different nodes are different (established by the pledge rule below),
	// and so are the node ids derived from them (no hash collision)
	idOf := func(k crypto.Key) crypto.Hash {
		a, _ := nodeSignerFromStateKey(nodeStateQueueKey(k, 1))
		return a.Hash()
	}
	for i := range cur {
		for j := i + 1; j < len(cur); j++ {
			vr.Assume(cur[i].signer != cur[j].signer)
			vr.Assume(idOf(cur[i].signer) != idOf(cur[j].signer))
		}
	}

	// one arbitrary operation after the history
	signer, payee, tx := newKey(), newKey(), zzHash()
	for _, l := range cur {
		if l.signer != signer {
			vr.Assume(idOf(l.signer) != idOf(signer))
		}
	}
	t := nextTs()
	op := vr.Choose(0, 3)
	before := zzDump(s)
	txn := s.snapshotsDB.NewTransaction(true)
	var err error
	switch op {
	case 0:
		err = writeNodePledge(txn, signer, payee, tx, t)
	case 1:
		err = writeNodeAccept(txn, signer, payee, tx, t, false)
	case 2:
		err = writeNodeCancel(txn, signer, payee, tx, t)
	case 3:
		err = writeNodeRemove(txn, signer, payee, tx, t)
	}
	if err != nil {
		txn.Discard()
		vr.Cover("rejected")
		vr.Assert(zzSameDump(before, zzDump(s)), "rejected-operation-writes-nothing")
		return
	}
	vr.Assert(txn.Commit() == nil, "commit")
	// reference view of the history: latest state per live node
	var pledging *live
	for _, l := range cur {
		if l.state == common.NodeStatePledging {
			pledging = l
		}
	}
	_ = config.KernelNodeAcceptPeriodMinimum
	switch op {
	case 0:
		vr.Cover("pledged")
		vr.Assert(pledging == nil, "pledge-only-while-no-other-node-is-pledging")
		for _, l := range cur {
			vr.Assert(l.signer != signer, "pledge-only-for-a-new-signer-key")
		}
		cur = append(cur, &live{signer, payee, common.NodeStatePledging})
	case 1, 2:
		vr.Cover("accepted-or-cancelled")
		vr.Assert(pledging != nil, "accept/cancel-needs-a-pledging-node")
		if pledging == nil {
			return
		}
		vr.Assert(pledging.signer == signer && pledging.payee == payee, "accept/cancel-only-the-pledging-node-with-matching-keys")
		vr.Assert(recs[len(recs)-1].state == common.NodeStatePledging && recs[len(recs)-1].signer == signer, "pledge-is-the-latest-record")
		if op == 1 {
			pledging.state = common.NodeStateAccepted
		} else {
			pledging.state = common.NodeStateCancelled
		}
	case 3:
		vr.Cover("removed")
		vr.Assert(pledging == nil, "remove-only-while-nobody-is-pledging")
		var target *live
		for _, l := range cur {
			if l.signer == signer {
				target = l
			}
		}
		vr.Assert(target != nil, "remove-names-a-known-node")
		if target == nil {
			return
		}
		vr.Assert(target.state == common.NodeStateAccepted && target.payee == payee, "remove-only-a-currently-accepted-node-with-matching-keys")
		target.state = common.NodeStateRemoved
	}
	// the record written and the reported latest states
	nodes := s.ReadAllNodes(^uint64(0)>>2, false)
	vr.Assert(len(nodes) == len(cur), "one-reported-entry-per-node")
	for _, l := range cur {
		found := false
		for _, n := range nodes {
			if n.Signer.PublicSpendKey == l.signer {
				found = true
				vr.Assert(n.State == l.state, "reported-state-is-the-latest-state")
				vr.Assert(n.Payee.PublicSpendKey == l.payee, "reported-payee")
			}
		}
		vr.Assert(found, "every-node-is-reported")
	}
	all := s.ReadAllNodes(^uint64(0)>>2, true)
	vr.Assert(len(all) == len(recs)+1, "exactly-one-record-appended")
	if len(all) == len(recs)+1 {
		w := all[len(all)-1]
		vr.Assert(w.Timestamp == t && w.Signer.PublicSpendKey == signer && w.Payee.PublicSpendKey == payee && w.Transaction == tx, "appended-record-is-the-operation")
	}
}
