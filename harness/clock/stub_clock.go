package clock

import (
	"time"

	vr "github.com/MixinNetwork/mixin/zzrt"
)

// The node's clock is the engine's: arbitrary non-decreasing instants. In a native replay
// these return the instants of the solver's model.
func ZZStub_Now() time.Time      { return vr.ClockNow() }
func ZZStub_NowUnixNano() uint64 { return vr.ClockNano() }
