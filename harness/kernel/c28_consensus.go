package kernel

import (
	"errors"

	"github.com/MixinNetwork/mixin/common"
	"github.com/MixinNetwork/mixin/crypto"
	"github.com/MixinNetwork/mixin/storage"
	vr "github.com/MixinNetwork/mixin/zzrt"
)

var errZZ28 = errors.New("stub: type-specific rule rejected")

// The type-specific rules (election, windows, mint amounts, custodian extra) are
// arbitrary accept/reject here: C25/C29/C34 decide them.
func zzEither() error {
	if vr.Bool() {
		return errZZ28
	}
	return nil
}
func ZZStub_Node_validateMintSnapshot(node *Node, snap *common.Snapshot, tx *common.VersionedTransaction) error {
	return zzEither()
}
func ZZStub_Node_validateNodePledgeSnapshot(node *Node, s *common.Snapshot, tx *common.VersionedTransaction, finalized bool) error {
	return zzEither()
}
func ZZStub_Node_validateNodeCancelSnapshot(node *Node, s *common.Snapshot, tx *common.VersionedTransaction, finalized bool) error {
	return zzEither()
}
func ZZStub_Node_validateNodeAcceptSnapshot(node *Node, s *common.Snapshot, tx *common.VersionedTransaction, finalized bool) error {
	return zzEither()
}
func ZZStub_Node_validateNodeRemoveSnapshot(node *Node, s *common.Snapshot, tx *common.VersionedTransaction, finalized bool) error {
	return zzEither()
}
func ZZStub_Node_validateCustodianUpdateNodes(node *Node, s *common.Snapshot, tx *common.VersionedTransaction, finalized bool) error {
	return zzEither()
}

func zzTyped() *common.VersionedTransaction {
	tx := common.Transaction{Version: common.TxVersionHashSignature, Asset: zzH()}
	in := &common.Input{Hash: zzH()}
	switch vr.Choose(0, 2) {
	case 1:
		in = &common.Input{Mint: &common.MintData{Group: "UNIVERSAL", Batch: vr.U64(), Amount: common.NewInteger(1)}}
	case 2:
		in = &common.Input{Deposit: &common.DepositData{Chain: zzH(), AssetKey: "k", Transaction: "t", Amount: common.NewInteger(1)}}
	}
	tx.Inputs = []*common.Input{in}
	tx.Outputs = []*common.Output{{Type: vr.U8(), Amount: common.NewInteger(1)}}
	for i := vr.Choose(0, 2); i > 0; i-- {
		tx.References = append(tx.References, zzH())
	}
	return &common.VersionedTransaction{SignedTransaction: common.SignedTransaction{Transaction: tx}}
}

func zzIsConsensusClass(t uint8) bool {
	switch t {
	case common.TransactionTypeMint, common.TransactionTypeNodePledge, common.TransactionTypeNodeCancel, common.TransactionTypeNodeAccept,
		common.TransactionTypeNodeRemove, common.TransactionTypeCustodianUpdateNodes, common.TransactionTypeCustodianSlashNodes:
		return true
	}
	return false
}

// ZZ_C28_kernel: the snapshot batch rules of the kernel.
func ZZ_C28_kernel() {
	store := storage.ZZNewStore()
	node := &Node{persistStore: store, IdForNetwork: zzH()}
	node.networkId = zzId(0xEE) // not mainnet
	// the last recorded consensus operation
	lastTx, lastTs := zzH(), vr.U64()
	vr.Assume(lastTs < 1<<62)
	last := &common.Snapshot{Version: common.SnapshotVersionCommonEncoding, NodeId: zzH(), RoundNumber: 1, Timestamp: lastTs,
		References: &common.RoundLink{Self: zzH(), External: zzH()}, Transactions: []crypto.Hash{lastTx}}
	vr.Assert(store.ZZPutConsensusSnapshot(last, 7) == nil, "setup-last-consensus")

	n := vr.Choose(1, 2)
	if vr.Tier() > 0 {
		n = vr.Choose(1, 3)
	}
	s := &common.Snapshot{Version: common.SnapshotVersionCommonEncoding, NodeId: zzH(), RoundNumber: vr.U64(), Timestamp: vr.U64(), Hash: zzH()}
	found := map[crypto.Hash]*common.VersionedTransaction{}
	var txs []*common.VersionedTransaction
	for i := 0; i < n; i++ {
		tx := zzTyped()
		h := tx.PayloadHash()
		for _, o := range s.Transactions {
			vr.Assume(o != h)
		}
		s.Transactions = append(s.Transactions, h)
		found[h] = tx
		txs = append(txs, tx)
	}
	finalized := vr.Bool()
	err := node.validateKernelSnapshot(s, found, finalized)
	if err != nil {
		vr.Cover("rejected")
		return
	}
	vr.Cover("accepted")
	if n > 1 {
		vr.Cover("batch")
		for _, tx := range txs {
			t := tx.TransactionType()
			vr.Assert(t == common.TransactionTypeScript || t == common.TransactionTypeDeposit || t == common.TransactionTypeWithdrawalSubmit || t == common.TransactionTypeWithdrawalClaim,
				"multi-transaction-snapshot-holds-only-batchable-classes")
		}
		return
	}
	tx := txs[0]
	if !zzIsConsensusClass(tx.TransactionType()) {
		vr.Cover("single-ordinary")
		return
	}
	vr.Cover("consensus-operation")
	if tx.PayloadHash() == lastTx {
		vr.Cover("replay-of-last-operation")
		return
	}
	vr.Assert(len(tx.References) >= 1 && tx.References[0] == lastTx, "consensus-operation-references-the-previous-one")
	vr.Assert(s.Timestamp > lastTs, "consensus-operation-strictly-later")
}

// ZZ_C28_storage: the stored consensus history is one chain with increasing timestamps.
func ZZ_C28_storage() {
	store := storage.ZZNewStore()
	lastTx, lastTs := zzH(), vr.U64()
	vr.Assume(lastTs < 1<<62)
	last := &common.Snapshot{Version: common.SnapshotVersionCommonEncoding, NodeId: zzH(), RoundNumber: 1, Timestamp: lastTs,
		References: &common.RoundLink{Self: zzH(), External: zzH()}, Transactions: []crypto.Hash{lastTx}}
	vr.Assert(store.ZZPutConsensusSnapshot(last, 7) == nil, "setup-last-consensus")

	tx := &common.VersionedTransaction{SignedTransaction: common.SignedTransaction{Transaction: common.Transaction{Version: common.TxVersionHashSignature, Asset: zzH()}}}
	tx.Inputs = []*common.Input{{Hash: zzH()}}
	tx.Outputs = []*common.Output{{Type: common.OutputTypeNodeRemove, Amount: common.NewInteger(1)}}
	tx.References = []crypto.Hash{zzH()}
	h := tx.PayloadHash()
	snap := &common.Snapshot{Version: common.SnapshotVersionCommonEncoding, NodeId: zzH(), RoundNumber: 1, Timestamp: vr.U64(),
		References: &common.RoundLink{Self: zzH(), External: zzH()}, Transactions: []crypto.Hash{h}}
	vr.Assume(snap.Timestamp < 1<<62)
	vr.Assume(snap.PayloadHash() != last.PayloadHash())
	vr.Assert(store.ZZPutSnapshot(snap, 8) == nil, "setup-new-snapshot")
	var err error
	panicked := vr.Catch(func() { err = store.WriteConsensusSnapshot(snap, tx, nil) })
	legal := vr.Or(h == lastTx, vr.And(tx.References[0] == lastTx, snap.Timestamp > lastTs))
	if panicked {
		vr.Cover("refused")
		vr.Assert(!legal, "only-an-illegal-link-is-refused")
		got, rerr := store.ReadLastConsensusSnapshot()
		vr.Assert(rerr == nil && got != nil && got.Transactions[0] == lastTx, "refused-write-leaves-history-unchanged")
		return
	}
	vr.Assert(err == nil, "write-succeeds")
	vr.Assert(legal, "recorded-operation-references-previous-and-is-later")
	got, rerr := store.ReadLastConsensusSnapshot()
	vr.Assert(rerr == nil && got != nil, "last-readable")
	if h == lastTx {
		vr.Cover("same-operation")
		vr.Assert(got.Transactions[0] == lastTx && got.Timestamp == lastTs, "replay-changes-nothing")
	} else {
		vr.Cover("appended")
		vr.Assert(got.Transactions[0] == h && got.Timestamp == snap.Timestamp, "new-operation-is-the-last-one")
	}
}
