package kernel

import (
	"github.com/MixinNetwork/mixin/common"
	"github.com/MixinNetwork/mixin/crypto"
	"github.com/dgraph-io/ristretto/v2"
	vr "github.com/MixinNetwork/mixin/zzrt"
)

func zzNewCache() *ristretto.Cache[[]byte, any] {
	c, err := ristretto.NewCache(&ristretto.Config[[]byte, any]{NumCounters: 1 << 12, MaxCost: 1 << 24, BufferItems: 64})
	if err != nil {
		panic(err)
	}
	return c
}

func zzSnapshotWithCert(ts uint64) *common.Snapshot {
	s := &common.Snapshot{Version: common.SnapshotVersionCommonEncoding, NodeId: zzId(1), RoundNumber: 1, Timestamp: ts, Hash: zzH()}
	s.Signature = &crypto.CosiSignature{Mask: vr.U64()}
	// key vectors here have at most 9 members (higher bits are rejected by the signer index check);
	// quick tier: members 0-3 always sign, members 4-8 arbitrary (4..9 signers straddle every threshold)
	vr.Assume(s.Signature.Mask < 1<<9)
	if vr.Tier() == 0 {
		vr.Assume(s.Signature.Mask&0xF == 0xF)
	}
	vr.Fill(s.Signature.Signature[:])
	// not the one historical mainnet snapshot whose timestamp is special-cased (a snapshot hash
	// commits its timestamp: no other snapshot has that hash)
	vr.Assume(s.Hash.String() != mainnetNodeRemovalHackSnapshotHash)
	return s
}

// ZZ_C09: a received snapshot is accepted as finalized only with a threshold certificate
// over the consensus key set at its timestamp; a remembered verdict equals a fresh one and
// is only ever served for the very same (hash, signature, mask, key set, threshold).
func ZZ_C09() {
	extra := 1
	if vr.Tier() > 0 {
		extra = 2
	}
	m := zzBuildNode(extra, 7)
	node := m.node
	for _, r := range m.records {
		// registered signer keys are valid curve points (checked when the node pledged)
		vr.Assume(vr.UFBool("checkkey", r.Signer.PublicSpendKey[:]))
	}
	node.cacheStore = zzNewCache()
	chain := &Chain{node: node, ChainId: zzId(1), State: &ChainState{}}
	ts := vr.U64()
	vr.Assume(ts < 1<<62)
	s := zzSnapshotWithCert(ts)

	crypto.ZZVerifyLog, crypto.ZZAggKeyLog = nil, nil
	signers, ok := chain.verifyFinalization(s)
	node.cacheStore.Wait()
	firstCalls := len(crypto.ZZVerifyLog)
	if !ok {
		vr.Cover("rejected")
	} else {
		vr.Cover("finalized")
		vr.Assert(ts >= node.Epoch, "not-before-the-epoch")
		T := node.ConsensusThreshold(ts, true)
		ids, keys := chain.ConsensusKeys(s.RoundNumber, ts)
		// the mask names members of the key vector only, at least the threshold of them
		var sel []int
		for i := 0; i < 64; i++ {
			if s.Signature.Mask&(1<<uint(i)) != 0 {
				sel = append(sel, i)
			}
		}
		vr.Assert(len(sel) >= T && T >= 1, "mask-names-at-least-the-threshold")
		for _, i := range sel {
			vr.Assert(i < len(keys), "mask-names-only-members-of-the-key-set")
		}
		vr.Assert(len(signers) == len(sel), "one-signer-per-mask-bit")
		for j, i := range sel {
			if i < len(ids) && j < len(signers) {
				vr.Assert(signers[j] == ids[i], "signers-are-the-masked-members")
			}
		}
		// exactly one signature check: aggregate of exactly the masked keys, over the snapshot hash
		vr.Assert(firstCalls == 1 && len(crypto.ZZAggKeyLog) == 1, "one-aggregate-signature-check")
		if firstCalls == 1 && len(crypto.ZZAggKeyLog) == 1 {
			c := crypto.ZZVerifyLog[0]
			vr.Assert(c.Result && c.Msg == s.Hash && c.Sigs[0] == s.Signature.Signature, "signature-verified-over-the-snapshot-hash")
			agg := crypto.ZZAggKeyLog[0]
			vr.Assert(len(agg) == len(sel), "aggregate-of-exactly-the-masked-keys")
			for j, i := range sel {
				if j < len(agg) && i < len(keys) {
					vr.Assert(agg[j] == *keys[i], "aggregate-of-exactly-the-masked-keys")
				}
			}
		}
	}
}

// ZZ_C09_cache: a remembered verdict equals a fresh one, and is only ever served for the
// very same question. (The cache may drop any entry at any time: every Get of a stored key
// forks into served / missing.)
func ZZ_C09_cache() {
	extra := 1
	if vr.Tier() > 0 {
		extra = 2
	}
	m := zzBuildNode(extra, 7)
	node := m.node
	for _, r := range m.records {
		vr.Assume(vr.UFBool("checkkey", r.Signer.PublicSpendKey[:]))
	}
	node.cacheStore = zzNewCache()
	chain := &Chain{node: node, ChainId: zzId(1), State: &ChainState{}}
	ts := vr.U64()
	vr.Assume(ts < 1<<62)
	s := zzSnapshotWithCert(ts)
	// masks: four, five or six of the first members (around the threshold of a 7-8 member set)
	vr.Assume(s.Signature.Mask == 0x0F || s.Signature.Mask == 0x1F || s.Signature.Mask == 0x3F)
	crypto.ZZVerifyLog, crypto.ZZAggKeyLog = nil, nil
	signers, ok := chain.verifyFinalization(s)
	node.cacheStore.Wait()
	if ok {
		vr.Cover("finalized")
	} else {
		vr.Cover("rejected")
	}
	// the same question again: same answer, served from the cache or recomputed
	signers2, ok2 := chain.verifyFinalization(s)
	vr.Assert(ok2 == ok && len(signers2) == len(signers), "remembered-verdict-equals-fresh-verdict")
	for i := range signers2 {
		if i < len(signers) {
			vr.Assert(signers2[i] == signers[i], "remembered-signers-equal-fresh-signers")
		}
	}
	// another certificate (any hash, signature, mask): never served from the first one's entry
	// unless it is the same question
	node.cacheStore.Wait()
	before := len(crypto.ZZVerifyLog)
	// s2: the first certificate with its hash, its signature or one mask bit changed (or unchanged)
	s2 := &common.Snapshot{Version: s.Version, NodeId: s.NodeId, RoundNumber: s.RoundNumber, Timestamp: ts, Hash: s.Hash}
	s2.Signature = &crypto.CosiSignature{Mask: s.Signature.Mask, Signature: s.Signature.Signature}
	switch vr.Choose(0, 4) {
	case 4:
		// another signer set of the same size: member 4 and member 5 exchanged
		s2.Signature.Mask ^= (1 << 4) | (1 << 5)
	case 1:
		s2.Hash = zzH()
		vr.Assume(s2.Hash.String() != mainnetNodeRemovalHackSnapshotHash)
	case 2:
		vr.Fill(s2.Signature.Signature[:])
	case 3:
		s2.Signature.Mask ^= 1 << uint(4*vr.Choose(1, 2))
	}
	_, okB := chain.verifyFinalization(s2)
	if okB && len(crypto.ZZVerifyLog) == before {
		vr.Assert(s2.Hash == s.Hash && s2.Signature.Signature == s.Signature.Signature && s2.Signature.Mask == s.Signature.Mask,
			"a-changed-hash-signature-or-mask-is-verified-afresh")
	}
}
