package kernel

import (
	"github.com/MixinNetwork/mixin/common"
	"github.com/MixinNetwork/mixin/config"
	"github.com/MixinNetwork/mixin/crypto"
	"github.com/MixinNetwork/mixin/storage"
	vr "github.com/MixinNetwork/mixin/zzrt"
)

// Everything in SetupNode except the consensus-bookkeeping repair is out of scope
// of C21 and is a no-op here (genesis construction, graph validation, goroutines);
// the repair itself - LastSnapshot -> reloadConsensusState ->
// WriteConsensusSnapshotWithHack -> WriteConsensusSnapshot - runs for real.
func ZZStub_Node_loadNodeConfig(node *Node)                          {}
func ZZStub_Node_LoadGenesis(node *Node, gns *common.Genesis) error  { node.networkId = zzId(0xEE); return nil }
func ZZStub_Node_LoadConsensusNodes(node *Node) error                { return nil }
func ZZStub_Node_BootChain(node *Node, id crypto.Hash) *Chain        { return nil }
func ZZStub_Node_getTopologyCounter(node *Node, store storage.Store) *TopologicalSequence {
	return &TopologicalSequence{}
}
func ZZStub_Node_LoadAllChainsAndGraphTimestamp(node *Node, store storage.Store, networkId crypto.Hash) error {
	return nil
}

func zzMintTx(batch uint64, ref crypto.Hash) *common.VersionedTransaction {
	tx := common.Transaction{Version: common.TxVersionHashSignature, Asset: common.XINAssetId}
	tx.Inputs = []*common.Input{{Mint: &common.MintData{Group: "UNIVERSAL", Batch: batch, Amount: common.NewInteger(10)}}}
	k := crypto.Key(zzId(0x31))
	tx.Outputs = []*common.Output{{Type: common.OutputTypeScript, Amount: common.NewInteger(10), Keys: []*crypto.Key{&k}, Mask: crypto.Key(zzId(0x32)), Script: common.NewThresholdScript(1)}}
	tx.References = []crypto.Hash{ref}
	return &common.VersionedTransaction{SignedTransaction: common.SignedTransaction{Transaction: tx}}
}

func zzOrdinaryTx() *common.VersionedTransaction {
	zzSnapSeq++
	tx := common.Transaction{Version: common.TxVersionHashSignature, Asset: zzId(0x20)}
	tx.Inputs = []*common.Input{{Hash: zzH(), Index: 0}}
	k := crypto.Key(zzId(0x21))
	tx.Outputs = []*common.Output{{Type: common.OutputTypeScript, Amount: common.NewInteger(1), Keys: []*crypto.Key{&k}, Mask: crypto.Key(zzId(0x22 + zzSnapSeq)), Script: common.NewThresholdScript(1)}}
	return &common.VersionedTransaction{SignedTransaction: common.SignedTransaction{Transaction: tx}}
}

var zzSnapSeq byte

// zzSnapOf: node id and references are fixed distinct constants (they play no role in the
// bookkeeping); timestamp and transactions are the caller's (symbolic) values.
func zzSnapOf(ts uint64, txs ...crypto.Hash) *common.Snapshot {
	zzSnapSeq++
	return &common.Snapshot{Version: common.SnapshotVersionCommonEncoding, NodeId: zzId(0x40 + zzSnapSeq), RoundNumber: 1, Timestamp: ts,
		References: &common.RoundLink{Self: zzId(0x80 + zzSnapSeq), External: zzId(0xc0 + zzSnapSeq)}, Transactions: txs}
}

// ZZ_C21: the process stops after a consensus-class snapshot S was durably finalized
// (WriteSnapshot committed) and before its bookkeeping write (WriteConsensusSnapshot);
// 0..2 other snapshots were durably written in between (TopoWrite hands out positions
// under its lock, so the durable order is S, O1, O2). After restart the last recorded
// consensus operation must be S or a later one.
func ZZ_C21() {
	store := storage.ZZNewStore()
	// history: P is the last recorded consensus operation
	pTx := zzH()
	tsP := vr.U64()
	vr.Assume(tsP > 0 && tsP < 1<<61)
	P := zzSnapOf(tsP, pTx)
	vr.Assert(store.ZZPutConsensusSnapshot(P, 10) == nil, "setup-P")
	// S: a mint snapshot referencing P's operation, durably finalized at topology 11
	C := zzMintTx(1800, pTx)
	tsS := vr.U64()
	vr.Assume(tsS > tsP && tsS < 1<<62)
	S := zzSnapOf(tsS, C.PayloadHash())
	vr.Assume(S.PayloadHash() != P.PayloadHash()) // no BLAKE3 collision between different snapshots
	hashes := []crypto.Hash{P.PayloadHash(), S.PayloadHash()}
	vr.Assert(store.ZZPutTransaction(C) == nil, "setup-C")
	vr.Assert(store.ZZPutSnapshot(S, 11) == nil, "setup-S")
	maxLater := 1
	if vr.Tier() > 0 {
		maxLater = 2
	}
	later := vr.Choose(0, maxLater)
	for i := 0; i < later; i++ {
		o := zzOrdinaryTx()
		vr.Assert(store.ZZPutTransaction(o) == nil, "setup-O-tx")
		os := zzSnapOf(vr.U64(), o.PayloadHash())
		for _, h := range hashes {
			vr.Assume(os.PayloadHash() != h)
		}
		hashes = append(hashes, os.PayloadHash())
		vr.Assume(o.PayloadHash() != C.PayloadHash())
		vr.Assert(store.ZZPutSnapshot(os, uint64(12+i)) == nil, "setup-O")
	}
	bookkeepingDone := vr.Bool() // the cut may also fall after WriteConsensusSnapshot(S)
	if bookkeepingDone {
		vr.Assert(store.WriteConsensusSnapshot(S, C, nil) == nil, "bookkeeping-before-cut")
	}
	if later > 0 && !bookkeepingDone {
		vr.Cover("kf:stopped-before-bookkeeping-with-later-snapshots")
	}
	if later == 0 && !bookkeepingDone {
		vr.Cover("repair-needed-and-last-snapshot-is-S")
	}
	// restart
	node, err := SetupNode(&config.Custom{}, store, nil, nil)
	vr.Assert(err == nil && node != nil, "restart-succeeds")
	last, rerr := store.ReadLastConsensusSnapshot()
	vr.Assert(rerr == nil && last != nil, "last-consensus-readable")
	vr.Cover("restarted")
	vr.Assert(last.Transactions[0] == C.PayloadHash(), "last-recorded-consensus-operation-is-S-or-later")
}
