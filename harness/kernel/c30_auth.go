package kernel

import (
	"encoding/binary"

	"github.com/MixinNetwork/mixin/common"
	"github.com/MixinNetwork/mixin/crypto"
	"github.com/MixinNetwork/mixin/kernel/internal/clock"
	vr "github.com/MixinNetwork/mixin/zzrt"
)

// ZZ_C30_accept: an arbitrary 137-byte message (and arbitrary other lengths), an arbitrary
// recipient, an arbitrary timeout: whenever AuthenticateAs accepts, the message is addressed
// to the recipient, fresh, signed by the key it names over its first 73 bytes (time,
// recipient, key, relayer flag), not from the recipient itself, and the token reports
// exactly what the message says.
func ZZ_C30_accept() {
	node := &Node{networkId: zzH()}
	n := vr.Choose(135, 139)
	msg := vr.Bytes(n)
	recipient := zzH()
	timeout := vr.Int()
	vr.Assume(timeout >= 0 && timeout <= 1<<31) // callers pass 0 (no freshness check) or the handshake timeout in seconds
	crypto.ZZVerifyLog = nil
	t0 := clock.Now().Unix()
	token, err := node.AuthenticateAs(recipient, msg, int64(timeout))
	t1 := clock.Now().Unix()
	if err != nil {
		vr.Assert(token == nil, "no-token-on-rejection")
		vr.Cover("rejected")
		return
	}
	vr.Cover("accepted")
	vr.Assert(len(msg) == 137, "accepted-message-has-the-fixed-length")
	ts := binary.BigEndian.Uint64(msg[:8])
	// addressed to the receiving node
	var rid crypto.Hash
	copy(rid[:], msg[8:40])
	vr.Assert(rid == recipient, "addressed-to-the-receiver")
	// within the allowed clock skew of some clock reading taken during the call
	if timeout > 0 {
		vr.Cover("freshness-checked")
		vr.Assert(ts < 1<<62, "fresh-timestamp-is-a-sane-instant")
		vr.Assert(int64(ts) <= t1+int64(timeout) && int64(ts)+int64(timeout) >= t0, "within-clock-skew")
	}
	// signed by the key it names, over time|recipient|key|flag
	var key crypto.Key
	copy(key[:], msg[40:72])
	var sig crypto.Signature
	copy(sig[:], msg[73:137])
	vr.Assert(len(crypto.ZZVerifyLog) == 1, "exactly-one-signature-check")
	c := crypto.ZZVerifyLog[0]
	vr.Assert(c.Result && len(c.Keys) == 1 && c.Keys[0] == key && c.Sigs[0] == sig, "signature-checked-against-the-named-key")
	vr.Assert(c.Msg == crypto.Blake3Hash(msg[:73]), "signature-covers-time-recipient-key-and-relayer-flag")
	// identity derived from that key; not the receiver itself
	signer := common.Address{PublicSpendKey: key}
	signer.PublicViewKey = key.DeterministicHashDerive().Public()
	pid := signer.Hash().ForNetwork(node.networkId)
	vr.Assert(token.PeerId == pid, "peer-identity-derived-from-the-key")
	vr.Assert(token.PeerId != recipient, "not-from-the-receiver-itself")
	vr.Assert(token.Timestamp == ts, "token-timestamp-is-the-signed-one")
	vr.Assert(token.IsRelayer == (msg[72] == 1), "relayer-flag-is-the-signed-one")
	vr.Assert(len(token.Data) == 137, "token-keeps-the-message")
	for i := range msg {
		vr.Assert(token.Data[i] == msg[i], "token-keeps-the-message")
	}
}

// ZZ_C30_build: the message a node builds is the 137-byte layout AuthenticateAs parses,
// carries the node's key, the addressed relayer, the current time and the node's relayer
// flag, and is signed over exactly the first 73 bytes; given a correct signature scheme
// (sign/verify agreement for this one instance) the addressee accepts it within the skew.
func ZZ_C30_build() {
	priv := crypto.Key(zzH())
	signerAddr := common.Address{PrivateSpendKey: priv, PublicSpendKey: priv.Public()}
	node := &Node{networkId: zzH(), Signer: signerAddr, isRelayer: vr.Bool()}
	relayer := zzH()
	crypto.ZZSigned = nil
	t0 := clock.Now().Unix()
	msg := node.BuildAuthenticationMessage(relayer)
	t1 := clock.Now().Unix()
	vr.Assert(len(msg) == 137, "built-message-has-the-fixed-length")
	ts := int64(binary.BigEndian.Uint64(msg[:8]))
	vr.Assert(ts >= t0 && ts <= t1, "carries-the-current-time")
	var rid crypto.Hash
	copy(rid[:], msg[8:40])
	vr.Assert(rid == relayer, "carries-the-addressee")
	var key crypto.Key
	copy(key[:], msg[40:72])
	vr.Assert(key == signerAddr.PublicSpendKey, "carries-the-signer-key")
	vr.Assert((msg[72] == 1) == node.isRelayer && msg[72] <= 1, "carries-the-relayer-flag")
	vr.Assert(len(crypto.ZZSigned) == 1 && crypto.ZZSigned[0] == crypto.Blake3Hash(msg[:73]), "signs-exactly-the-first-73-bytes")
	// the addressee accepts it (signature scheme correctness assumed for this instance)
	var sig crypto.Signature
	copy(sig[:], msg[73:137])
	vr.Assume(vr.UFBool("sigverify", key[:], crypto.ZZSigned[0][:], sig[:]))
	peer := &Node{networkId: node.networkId}
	timeout := vr.Int()
	vr.Assume(timeout >= 0 && timeout <= 1<<31)
	token, err := peer.AuthenticateAs(relayer, msg, int64(timeout))
	t2 := clock.Now().Unix()
	signer := common.Address{PublicSpendKey: key}
	signer.PublicViewKey = key.DeterministicHashDerive().Public()
	// (a sender whose derived identity equals the addressee is the 'self' rejection of the accept harness)
	vr.Assume(signer.Hash().ForNetwork(node.networkId) != relayer)
	if timeout == 0 || t2-ts <= int64(timeout) {
		vr.Assert(err == nil && token != nil, "fresh-well-formed-message-accepted")
		vr.Assert(token.IsRelayer == node.isRelayer, "role-transmitted")
		vr.Cover("roundtrip-accepted")
	}
}
