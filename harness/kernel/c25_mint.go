package kernel

import (
	"math/big"

	"github.com/MixinNetwork/mixin/common"
	"github.com/MixinNetwork/mixin/crypto"
	"github.com/MixinNetwork/mixin/storage"
	vr "github.com/MixinNetwork/mixin/zzrt"
)

// ZZ_C25_schedule: one year of the mint schedule, for an arbitrary remaining pool P.
// By induction over years (base: the real MintPool) the per-batch amounts never
// increase and their cumulative total never exceeds the pool.
func ZZ_C25_schedule() {
	pb := vr.BigInt(0)
	vr.Assume(pb.Cmp(big.NewInt(10)) >= 0) // below 10 units the yearly mint is 0 and Integer.Sub(0) panics: that is ~277 years out (pool*0.9^k < 10 units)
	saved := MintPool
	defer func() { MintPool = saved }()
	b := vr.U64()
	vr.Assume(b < MintYearDays)

	MintPool = common.ZZIntegerFromBig(pb)
	size := mintBatchSize(b) // batch in the first year of a pool P
	year := new(big.Int).Quo(pb, big.NewInt(10))
	// size = floor(floor(P/10)/365)
	lo := new(big.Int).Mul(size.ZZBig(), big.NewInt(MintYearDays))
	vr.Assert(lo.Cmp(year) <= 0, "a-year-of-batches-fits-the-yearly-mint")
	vr.Assert(year.Cmp(new(big.Int).Add(lo, big.NewInt(MintYearDays))) < 0, "batch-is-the-floor-of-yearly-mint-over-365")
	vr.Assert(year.Cmp(pb) <= 0, "yearly-mint-within-pool")
	// the next year is the same function of the reduced pool
	next := mintBatchSize(b + MintYearDays)
	MintPool = common.ZZIntegerFromBig(new(big.Int).Sub(pb, year))
	again := mintBatchSize(b)
	vr.Assert(next.Cmp(again) == 0, "next-year-is-first-year-of-the-reduced-pool")
	vr.Assert(next.Cmp(size) <= 0, "per-batch-amount-never-increases")
	// monotone in the pool
	qb := vr.BigInt(0)
	vr.Assume(qb.Cmp(pb) <= 0)
	MintPool = common.ZZIntegerFromBig(qb)
	smaller := mintBatchSize(b)
	vr.Assert(smaller.Cmp(size) <= 0, "smaller-pool-smaller-batch")
	vr.Cover("schedule")
}

// ZZ_C25_multi: a multi-batch mint equals the sum of its batches.
func ZZ_C25_multi() {
	old := vr.U64()
	vr.Assume(old < 3*MintYearDays)
	k := uint64(vr.Choose(1, 3))
	got := mintMultiBatchesSize(old, old+k)
	sum := new(big.Int)
	for i := old + 1; i <= old+k; i++ {
		sum.Add(sum, mintBatchSize(i).ZZBig())
	}
	vr.Assert(got.ZZBig().Cmp(sum) == 0, "multi-batch-is-the-sum-of-its-batches")
	vr.Assert(vr.Catch(func() { mintMultiBatchesSize(old+k, old) }), "reversed-range-is-refused")
	vr.Cover("multi")
}

type zzWorkStore struct {
	storage.Store
	works map[crypto.Hash][2]uint64
	batch uint64
}

func (s *zzWorkStore) ListNodeWorks(cids []crypto.Hash, day uint32) (map[crypto.Hash][2]uint64, error) {
	out := map[crypto.Hash][2]uint64{}
	for _, id := range cids {
		out[id] = s.works[id]
	}
	return out, nil
}

func (s *zzWorkStore) ListAggregatedRoundSpaceCheckpoints(cids []crypto.Hash) (map[crypto.Hash]*common.RoundSpace, error) {
	out := map[crypto.Hash]*common.RoundSpace{}
	for _, id := range cids {
		out[id] = &common.RoundSpace{NodeId: id, Batch: s.batch}
	}
	return out, nil
}

func (s *zzWorkStore) ReadNodeRoundSpacesForBatch(nodeId crypto.Hash, batch uint64) ([]*common.RoundSpace, error) {
	return nil, nil
}

// ZZ_C25_distribution: shares by work are bounded by the base, positive and monotone in work.
func ZZ_C25_distribution() {
	m := zzBuildNode(0, 7)
	node := m.node
	st := &zzWorkStore{works: map[crypto.Hash][2]uint64{}}
	node.persistStore = st
	days := uint64(vr.Choose(1, 2))
	ts := node.Epoch + days*OneDay + 8*3600000000000
	vr.Assume(node.Epoch%OneDay == 0)
	st.batch = days + 1
	accepted := node.NodesListWithoutState(ts, true)
	vr.Assert(len(accepted) == 7, "seven-accepted")
	rawWork := make([]*big.Int, len(accepted))
	// work counts: three nodes range over a table that reaches every clamp of the distribution
	// (zero work, below avg/7, around the average, above 7*avg); the other four are fixed.
	// The batch amount stays symbolic: every division in the real code is then by a
	// path-constant, which keeps the obligations linear (division by a symbolic total is
	// nonlinear integer arithmetic: all three solvers answered unknown).
	leadTab := []uint32{0, 1, 10, 1000}
	signTab := []uint32{0, 7}
	fixed := [][2]uint32{{10, 0}, {10, 5}, {12, 0}, {9, 1}}
	for i, cn := range accepted {
		var lead, sign uint32
		if i < 3 {
			lead = leadTab[vr.Choose(0, len(leadTab)-1)]
			sign = signTab[vr.Choose(0, len(signTab)-1)]
		} else {
			lead, sign = fixed[i-3][0], fixed[i-3][1]
		}
		st.works[cn.IdForNetwork] = [2]uint64{uint64(lead), uint64(sign)}
		// the code's work measure: lead*1.2 + sign (in 1e-8 units)
		w := new(big.Int).Mul(big.NewInt(int64(lead)), big.NewInt(100000000))
		w.Mul(w, big.NewInt(120))
		w.Quo(w, big.NewInt(100))
		w.Add(w, new(big.Int).Mul(big.NewInt(int64(sign)), big.NewInt(100000000)))
		rawWork[i] = w
	}
	bb := vr.BigInt(0)
	vr.Assume(bb.Cmp(big.NewInt(1000000)) >= 0) // at least 0.01 XIN to distribute (real batches: > 60 XIN for the first 50 years)
	base := common.ZZIntegerFromBig(bb)
	mints, err := node.distributeKernelMintByWorks(accepted, base, ts)
	if err != nil {
		vr.Cover("not-ready")
		return
	}
	vr.Cover("distributed")
	vr.Assert(len(mints) == len(accepted), "one-share-per-accepted-node")
	sum := new(big.Int)
	for i, mi := range mints {
		vr.Assert(mi.IdForNetwork == accepted[i].IdForNetwork, "shares-in-node-order")
		vr.Assert(mi.Work.Sign() > 0, "every-share-positive")
		sum.Add(sum, mi.Work.ZZBig())
	}
	vr.Assert(sum.Cmp(bb) <= 0, "shares-sum-within-base")
	for i := range mints {
		for j := range mints {
			if i != j && rawWork[i].Cmp(rawWork[j]) >= 0 {
				vr.Assert(mints[i].Work.Cmp(mints[j].Work) >= 0, "more-work-never-receives-less")
			}
		}
	}
}
