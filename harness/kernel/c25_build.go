package kernel

import (
	"math/big"

	"github.com/MixinNetwork/mixin/common"
	"github.com/MixinNetwork/mixin/crypto"
	vr "github.com/MixinNetwork/mixin/zzrt"
)

// Stubs for the real buildUniversalMintTransaction: the batch amount is arbitrary, the
// kernel-node distribution is any list of positive shares within its base (what the
// distribution harness establishes), the last consensus operation is some snapshot.
var zzBuildAmount common.Integer
var zzBuildBase *big.Int
var zzBuildMints []*CNodeWork

func ZZStub_Node_checkUniversalMintPossibility(node *Node, timestamp uint64, validateOnly bool) (uint64, common.Integer) {
	return 1800, zzBuildAmount
}

func ZZStub_Node_distributeKernelMintByWorks(node *Node, accepted []*CNode, base common.Integer, timestamp uint64) ([]*CNodeWork, error) {
	zzBuildBase = base.ZZBig()
	n := vr.Choose(1, 3)
	sum := new(big.Int)
	var out []*CNodeWork
	for i := 0; i < n; i++ {
		w := vr.BigInt(0)
		vr.Assume(w.Sign() > 0)
		sum.Add(sum, w)
		cn := &CNodeWork{Work: common.ZZIntegerFromBig(w)}
		cn.IdForNetwork = zzId(byte(0x50 + i))
		cn.Signer.PublicSpendKey[0] = byte(0x60 + i)
		cn.Payee.PublicSpendKey[0] = byte(0x70 + i)
		out = append(out, cn)
	}
	vr.Assume(sum.Cmp(zzBuildBase) <= 0) // C25 distribution: shares sum within the base
	zzBuildMints = out
	return out, nil
}

func ZZStub_Node_ReadLastConsensusSnapshotWithHack(node *Node) (*common.Snapshot, bool) {
	return &common.Snapshot{Transactions: []crypto.Hash{zzId(0x42)}}, true
}

// ZZ_C25_build: the outputs of the real buildUniversalMintTransaction for an arbitrary batch
// amount: one per kernel share, then the custodian share = 4 * floor(amount/10), then the
// light share; every output positive; all outputs sum exactly to the batch amount; the
// kernel base handed to the distribution is 5 * floor(amount/10) <= amount/2.
func ZZ_C25_build() {
	ab := vr.BigInt(0)
	vr.Assume(ab.Cmp(big.NewInt(10)) >= 0)
	zzBuildAmount = common.ZZIntegerFromBig(ab)
	node := &Node{networkId: zzId(0xEE)}
	custodian := &common.Address{}
	custodian.PublicSpendKey[0] = 0x33
	tx := node.buildUniversalMintTransaction(&common.CustodianUpdateRequest{Custodian: custodian}, vr.U64(), false)
	vr.Assert(tx != nil, "mint-transaction-built")
	if tx == nil {
		return
	}
	vr.Cover("built")
	tenth := new(big.Int).Quo(ab, big.NewInt(10))
	vr.Assert(zzBuildBase.Cmp(new(big.Int).Mul(tenth, big.NewInt(5))) == 0, "kernel-base-is-five-tenths-rounded-down")
	vr.Assert(new(big.Int).Mul(zzBuildBase, big.NewInt(2)).Cmp(ab) <= 0, "kernel-share-at-most-half")
	k := len(zzBuildMints)
	vr.Assert(len(tx.Outputs) == k+2, "one-output-per-share-plus-custodian-and-light")
	if len(tx.Outputs) != k+2 {
		return
	}
	sum := new(big.Int)
	for i, o := range tx.Outputs {
		vr.Assert(o.Amount.Sign() > 0, "every-output-positive")
		sum.Add(sum, o.Amount.ZZBig())
		if i < k {
			vr.Assert(o.Amount.Cmp(zzBuildMints[i].Work) == 0, "kernel-outputs-are-the-distributed-shares")
		}
	}
	vr.Assert(tx.Outputs[k].Amount.ZZBig().Cmp(new(big.Int).Mul(tenth, big.NewInt(4))) == 0, "custodian-share-is-four-times-one-tenth-rounded-down")
	vr.Assert(sum.Cmp(ab) == 0, "outputs-sum-exactly-to-the-batch-amount")
	vr.Assert(len(tx.Inputs) == 1 && tx.Inputs[0].Mint != nil && tx.Inputs[0].Mint.Amount.Cmp(zzBuildAmount) == 0 && tx.Inputs[0].Mint.Batch == 1800, "mint-input-carries-batch-and-amount")
}
