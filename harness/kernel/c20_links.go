package kernel

import (
	"github.com/MixinNetwork/mixin/common"
	"github.com/MixinNetwork/mixin/crypto"
	"github.com/MixinNetwork/mixin/storage"
	vr "github.com/MixinNetwork/mixin/zzrt"
)

func zzH() (h crypto.Hash) { vr.Fill(h[:]); return }

// ZZ_C20: one round transition of a chain, from an arbitrary consistent state.
func ZZ_C20() {
	store := storage.ZZNewStore()
	N, E := zzH(), zzH() // this chain, another chain
	vr.Assume(N != E && N.HasValue() && E.HasValue())
	node := &Node{chains: &chainsMap{m: map[crypto.Hash]*Chain{}}, genesisNodesMap: map[crypto.Hash]bool{}}
	chain := &Chain{node: node, ChainId: N, persistStore: store}

	// head (cache) round with 1-2 snapshots and its stored record
	number := vr.U64()
	vr.Assume(number > 0 && number < 1<<62)
	oldExt := zzH()
	vr.Assume(oldExt.HasValue() && oldExt != N && oldExt != E)
	cache := &CacheRound{NodeId: N, Number: number, References: &common.RoundLink{Self: zzH(), External: oldExt}, index: newRoundIndexCache()}
	for i := vr.Choose(1, 2); i > 0; i-- {
		s := &common.Snapshot{Version: common.SnapshotVersionCommonEncoding, NodeId: N, RoundNumber: number, Timestamp: vr.U64(), Hash: zzH()}
		vr.Assume(s.Timestamp < 1<<62)
		cache.Snapshots = append(cache.Snapshots, s)
	}
	if len(cache.Snapshots) == 2 {
		a, b := cache.Snapshots[0].Timestamp, cache.Snapshots[1].Timestamp
		vr.Assume(a < b && b-a < 3000000000) // C19: one round spans less than the gap
	}
	prevFinal := &FinalRound{NodeId: N, Number: number - 1, Start: vr.U64(), End: vr.U64(), Hash: cache.References.Self}
	chain.State = &ChainState{CacheRound: cache, FinalRound: prevFinal, RoundHistory: []*FinalRound{prevFinal}, RoundLinks: map[crypto.Hash]uint64{}}
	vr.Assert(store.ZZWriteRound(N, &common.Round{Hash: N, NodeId: N, Number: number, References: cache.References}) == nil, "setup-head")
	// stored link N->E and its in-memory mirror agree (representation invariant)
	link := vr.U64()
	if vr.Bool() {
		vr.Assert(store.ZZWriteLink(N, E, link) == nil, "setup-link")
		chain.State.RoundLinks[E] = link
	} else {
		link = 0
	}

	// the head's current external reference exists (it was validated when the head was started)
	// and the stored link to its node is its round number (written in the same transaction)
	vr.Assert(store.ZZWriteRound(oldExt, &common.Round{Hash: oldExt, NodeId: E, Number: link, Timestamp: 1}) == nil, "setup-old-external")

	// the proposed external round: absent, or a stored final round of node X (X may be N itself)
	ext := zzH()
	vr.Assume(ext != N && ext != oldExt && ext.HasValue())
	extPresent := vr.Bool()
	X := E
	selfRef := vr.Bool()
	if selfRef {
		X = N
	}
	extNumber := vr.U64()
	if extPresent {
		vr.Assert(store.ZZWriteRound(ext, &common.Round{Hash: ext, NodeId: X, Number: extNumber, Timestamp: vr.U64()}) == nil, "setup-external")
	}
	final0 := cache.asFinal()
	// the closing round's hash is a fresh BLAKE3 value: non-zero and not the key of an existing round record
	vr.Assume(final0.Hash.HasValue() && final0.Hash != N && final0.Hash != oldExt && final0.Hash != ext)
	refs := &common.RoundLink{Self: final0.Hash, External: ext}
	if vr.Bool() {
		refs.Self = zzH() // a proposal that does not commit to this chain's previous final round
		vr.Assume(refs.Self != final0.Hash)
	}
	ts, finalized := vr.U64(), true
	before := store.ZZDump()
	linksBefore := chain.State.RoundLinks[E]
	nc, nf, dummy, err := chain.startNewRoundAndPersist(cache, refs, ts, finalized)
	after := store.ZZDump()
	if err != nil || nf == nil {
		if err != nil && vr.Replaying() {
			println("ZZ-NOTE rejected:", err.Error())
		}
		vr.Cover("rejected")
		vr.Assert(storage.ZZSameDump(before, after), "rejected-transition-leaves-the-store-unchanged")
		vr.Assert(chain.State.CacheRound == cache && chain.State.FinalRound == prevFinal && chain.State.RoundLinks[E] == linksBefore, "rejected-transition-leaves-chain-state-unchanged")
		return
	}
	vr.Cover("advanced")
	vr.Assert(refs.Self == final0.Hash, "new-round-commits-to-previous-final-round-hash")
	vr.Assert(nf.Number == number && nc.Number == number+1, "number-exactly-one-higher")
	head, rerr := store.ReadRound(N)
	vr.Assert(rerr == nil && head != nil && head.Number == number+1, "stored-head-number-one-higher")
	prev, rerr := store.ReadRound(refs.Self)
	vr.Assert(rerr == nil && prev != nil && prev.Number == number && prev.NodeId == N, "previous-round-stored-under-its-final-hash")
	if dummy {
		vr.Cover("dummy-external")
		vr.Assert(!extPresent, "dummy-only-when-external-unknown")
		vr.Assert(nc.References.External == oldExt, "dummy-keeps-the-old-external")
		return
	}
	vr.Assert(extPresent, "external-reference-names-a-known-final-round")
	vr.Assert(!selfRef, "external-reference-is-another-node's-round")
	vr.Assert(extNumber >= link, "stored-link-never-decreases")
	got, rerr := store.ReadLink(N, E)
	vr.Assert(rerr == nil && got == extNumber, "stored-link-is-the-referenced-round-number")
	vr.Assert(chain.State.RoundLinks[E] == extNumber, "link-mirror-updated")
	vr.Assert(head != nil && head.References != nil && head.References.Self == refs.Self && head.References.External == ext, "stored-head-references")
}
