package kernel

import (
	"github.com/MixinNetwork/mixin/common"
	"github.com/MixinNetwork/mixin/config"
	"github.com/MixinNetwork/mixin/crypto"
	vr "github.com/MixinNetwork/mixin/zzrt"
)

// Membership model shared by the C09-C11 / C29 harnesses: a Node whose record
// list is 7 genesis ACCEPTED records at Epoch plus up to `extra` later records that
// follow the pledge/accept/cancel/remove lifecycle (C27 is what justifies that
// restriction), with symbolic strictly increasing timestamps. The per-timestamp
// sequences are built by the real buildNodeStateSequences.

func zzId(b byte) (h crypto.Hash) {
	h[0] = b
	return
}

type zzMembership struct {
	node    *Node
	records []*CNode
}

func zzBuildNode(extra int, genesisCount int) *zzMembership {
	node := &Node{genesisNodesMap: map[crypto.Hash]bool{}}
	node.networkId = zzId(0xEE) // not the mainnet id
	node.Epoch = vr.U64()
	vr.Assume(node.Epoch > 0 && node.Epoch < 1<<61)
	var recs []*CNode
	for i := 1; i <= genesisCount; i++ {
		cn := &CNode{IdForNetwork: zzId(byte(i)), State: common.NodeStateAccepted, Timestamp: node.Epoch}
		vr.Fill(cn.Signer.PublicSpendKey[:])
		node.genesisNodesMap[cn.IdForNetwork] = true
		node.genesisNodes = append(node.genesisNodes, cn.IdForNetwork)
		recs = append(recs, cn)
	}
	// latest state per id, in creation order
	type st struct {
		id    crypto.Hash
		state string
		key   crypto.Key
	}
	var cur []*st
	for _, r := range recs {
		cur = append(cur, &st{r.IdForNetwork, r.State, r.Signer.PublicSpendKey})
	}
	last := node.Epoch
	nextNew := byte(genesisCount + 1)
	n := vr.Choose(0, extra)
	for e := 0; e < n; e++ {
		ts := vr.U64()
		vr.Assume(ts > last && ts < 1<<62)
		last = ts
		var pledging *st
		for _, s := range cur {
			if s.state == common.NodeStatePledging {
				pledging = s
			}
		}
		cn := &CNode{Timestamp: ts}
		if pledging != nil {
			// the only legal next events for a pledging node: accept or cancel
			if vr.Bool() {
				pledging.state = common.NodeStateAccepted
			} else {
				pledging.state = common.NodeStateCancelled
			}
			cn.IdForNetwork, cn.State, cn.Signer.PublicSpendKey = pledging.id, pledging.state, pledging.key
		} else if vr.Bool() {
			s := &st{id: zzId(nextNew), state: common.NodeStatePledging}
			nextNew++
			vr.Fill(s.key[:])
			cur = append(cur, s)
			cn.IdForNetwork, cn.State, cn.Signer.PublicSpendKey = s.id, s.state, s.key
		} else {
			// remove one currently accepted node
			var acc []*st
			for _, s := range cur {
				if s.state == common.NodeStateAccepted {
					acc = append(acc, s)
				}
			}
			s := acc[vr.Choose(0, len(acc)-1)]
			s.state = common.NodeStateRemoved
			cn.IdForNetwork, cn.State, cn.Signer.PublicSpendKey = s.id, s.state, s.key
		}
		recs = append(recs, cn)
	}
	node.allNodesSortedWithState = recs
	node.nodeStateSequences = node.buildNodeStateSequences(recs, false)
	node.acceptedNodeStateSequences = node.buildNodeStateSequences(recs, true)
	return &zzMembership{node: node, records: recs}
}

// ZZ_C10: for every membership history and timestamp, whenever a certificate is
// possible at all (threshold <= size of the key vector) two signer sets meeting the
// threshold share more than a third of the key vector: 3*(2T-K) > K.
func ZZ_C10() {
	extra := 2
	if vr.Tier() > 0 {
		extra = 3
	}
	m := zzBuildNode(extra, 7)
	node := m.node
	ts := vr.U64()
	vr.Assume(ts >= node.Epoch && ts < 1<<62)
	round := uint64(vr.Choose(0, 1))
	chain := &Chain{node: node}
	pledgingChain := vr.Bool()
	if pledgingChain {
		// the chain of the node that is pledging at ts: no state yet, identity loaded
		p := node.PledgingNode(ts)
		if p == nil {
			return
		}
		chain.ChainId, chain.ConsensusInfo = p.IdForNetwork, p
		if round == 0 {
			vr.Cover("kf:pledging-chain-round0")
		}
	} else {
		chain.ChainId = zzId(1)
		chain.State = &ChainState{}
	}
	T := node.ConsensusThreshold(ts, true)
	ids, keys := chain.ConsensusKeys(round, ts)
	K := len(keys)
	vr.Assert(len(ids) == K, "ids-and-keys-same-length")
	if T > K {
		vr.Cover("no-certificate-possible")
		return
	}
	vr.Cover("certificate-possible")
	vr.Assert(T >= 1, "threshold-positive")
	vr.Assert(T != 1000, "below-minimum-membership-no-certificate-is-possible")
	vr.Assert(3*(2*T-K) > K, "two-certificates-share-more-than-a-third")
}

// ZZ_C29: operator election.
func ZZ_C29() {
	extra := 1
	if vr.Tier() > 0 {
		extra = 3
	}
	m := zzBuildNode(extra, 8)
	node := m.node
	now := vr.U64()
	vr.Assume(now >= node.Epoch && now < 1<<62)
	ops := []byte{common.TransactionTypeMint, common.TransactionTypeNodeRemove, common.TransactionTypeNodePledge,
		common.TransactionTypeCustodianUpdateNodes, common.TransactionTypeCustodianSlashNodes, common.TransactionTypeScript}
	op := ops[vr.Choose(0, len(ops)-1)]
	accepted := node.NodesListWithoutState(now, true)
	if len(accepted) < config.KernelMinimumNodesCount {
		vr.Cover("below-minimum")
		return
	}
	elected := node.electSnapshotNode(op, now)
	if op == common.TransactionTypeScript {
		vr.Assert(elected == crypto.Hash{}, "no-election-for-ordinary-operations")
		return
	}
	vr.Cover("elected")
	vr.Assert(elected != accepted[0].IdForNetwork, "never-the-oldest-accepted")
	vr.Assert(elected != accepted[len(accepted)-1].IdForNetwork, "never-the-newest-accepted")
	found := false
	for _, cn := range accepted {
		found = vr.Or(found, cn.IdForNetwork == elected)
	}
	vr.Assert(found, "elected-is-an-accepted-node")
	// same membership, same day, same operation: same node (determinism): a second evaluation later the same day
	later := vr.U64()
	vr.Assume(later >= now && later < 1<<62)
	vr.Assume((later-node.Epoch)/OneDay == (now-node.Epoch)/OneDay)
	acc2 := node.NodesListWithoutState(later, true)
	if len(acc2) == len(accepted) {
		same := true
		for i := range acc2 {
			same = vr.And(same, acc2[i].IdForNetwork == accepted[i].IdForNetwork)
		}
		if same {
			vr.Assert(node.electSnapshotNode(op, later) == elected, "same-day-same-membership-same-operator")
		}
	}
	// a node is never elected to propose its own removal
	if cand, err := node.checkRemovePossibility(elected, now, nil); err == nil {
		vr.Cover("removal-possible")
		vr.Assert(cand.IdForNetwork != elected, "never-removes-itself")
	}
	// hour windows
	hour := (now - node.Epoch) / 3600000000000 % 24
	vr.Assert(node.checkConsensusAcceptHour(now) == (hour >= 13 && hour <= 19), "accept-window-13-19")
	vr.Assert(node.checkConsensusPledgeHour(now) == !((hour >= 7 && hour <= 9) || (hour >= 13 && hour <= 19)), "pledge-window")
}

// ZZ_C29_hours: the pledge / accept hour windows at fixed offsets inside any day after the
// (symbolic) epoch: window edges, one nanosecond around them, and mid-hour instants.
func ZZ_C29_hours() {
	node := &Node{}
	if vr.Bool() {
		node.Epoch = vr.U64()
		vr.Assume(node.Epoch > 0 && node.Epoch < 1<<61)
	} else {
		node.Epoch = 1551312000000000000 // a fixed epoch: the probes below are then fully concrete
	}
	offs := []uint64{6*3600e9 + 3599e9, 7 * 3600e9, 9*3600e9 + 1800e9, 9*3600e9 + 3599999999999, 10 * 3600e9, 12*3600e9 + 1, 13 * 3600e9, 19*3600e9 + 1, 19*3600e9 + 1800e9, 20 * 3600e9}
	off := offs[vr.Choose(0, len(offs)-1)]
	var days uint64
	if node.Epoch == 1551312000000000000 {
		days = uint64(vr.Choose(0, 2))
	} else {
		days = uint64(vr.U16())
	}
	probe := node.Epoch + days*OneDay + off
	ph := off / 3600000000000
	vr.Assert(node.checkConsensusPledgeHour(probe) == !((ph >= 7 && ph <= 9) || (ph >= 13 && ph <= 19)), "pledge-window-at-fixed-offsets")
	vr.Assert(node.checkConsensusAcceptHour(probe) == (ph >= 13 && ph <= 19), "accept-window-at-fixed-offsets")
	vr.Cover("hours")
}
