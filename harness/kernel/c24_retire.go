package kernel

import (
	"github.com/MixinNetwork/mixin/common"
	"github.com/MixinNetwork/mixin/config"
	"github.com/MixinNetwork/mixin/crypto"
	"github.com/MixinNetwork/mixin/storage"
	vr "github.com/MixinNetwork/mixin/zzrt"
)

var zzBase int

// The threshold is an arbitrary plausible value (C10 decides it); waking the queue loop is a no-op.
func ZZStub_Node_ConsensusThreshold(node *Node, timestamp uint64, final bool) int { return zzBase }
func ZZStub_Node_wakeCacheQueue(node *Node)                                        {}

type zzTxStatus struct {
	hash   crypto.Hash
	status int // 0 finalized, 1 body in store (pending), 2 body in cache only, 3 no body anywhere
}

type zzCosiStore struct {
	storage.Store
	txs    []*zzTxStatus
	queued []crypto.Hash
}

func (s *zzCosiStore) find(h crypto.Hash) *zzTxStatus {
	for _, t := range s.txs {
		if t.hash == h {
			return t
		}
	}
	panic("unknown transaction")
}

func (s *zzCosiStore) body(h crypto.Hash) *common.VersionedTransaction {
	tx := &common.VersionedTransaction{}
	tx.Version = common.TxVersionHashSignature
	tx.Asset = h // marker: lets CacheQueueTransaction report which transaction it got
	return tx
}

func (s *zzCosiStore) ReadTransaction(h crypto.Hash) (*common.VersionedTransaction, string, error) {
	switch s.find(h).status {
	case 0:
		return s.body(h), "finalizing-snapshot", nil
	case 1:
		return s.body(h), "", nil
	}
	return nil, "", nil
}

func (s *zzCosiStore) CacheGetTransaction(h crypto.Hash) (*common.VersionedTransaction, error) {
	if s.find(h).status == 2 {
		return s.body(h), nil
	}
	return nil, nil
}

func (s *zzCosiStore) CacheQueueTransaction(tx *common.VersionedTransaction) error {
	s.queued = append(s.queued, tx.Asset)
	return nil
}

// ZZ_C24: retiring local proposals never loses a pending transaction.
func ZZ_C24() {
	st := &zzCosiStore{}
	node := &Node{persistStore: st}
	// hashes only serve as identities here: distinct constants (collisions are outside every claim)
	chain := &Chain{node: node, ChainId: zzId(0x01), CosiAggregators: map[crypto.Hash]*CosiAggregator{}, CosiVerifiers: map[crypto.Hash]*CosiVerifier{}}
	zzBase = 5
	// a pool of 3 transactions with arbitrary ledger status
	pool := make([]crypto.Hash, 3)
	for i := range pool {
		pool[i] = zzId(0x10 + byte(i))
		status := vr.Int() // forked lazily, where the code under test reads the transaction
		vr.Assume(status >= 0 && status <= 3)
		st.txs = append(st.txs, &zzTxStatus{hash: pool[i], status: status})
	}
	type prop struct {
		snap     *common.Snapshot
		agg      *CosiAggregator
		verifier *CosiVerifier
		members  []int
		complete bool
	}
	var props []*prop
	for k := 0; k < 2; k++ {
		p := &prop{snap: &common.Snapshot{Version: common.SnapshotVersionCommonEncoding, Hash: zzId(0x20 + byte(k)), Timestamp: vr.U64()}}
		vr.Assume(p.snap.Timestamp < 1<<62)
		// members: one of {0},{1},{0,1},{1,2} so the two proposals can overlap
		switch vr.Choose(0, 3) {
		case 0:
			p.members = []int{0}
		case 1:
			p.members = []int{1}
		case 2:
			p.members = []int{0, 1}
		case 3:
			p.members = []int{1, 2}
		}
		for _, m := range p.members {
			p.snap.Transactions = append(p.snap.Transactions, pool[m])
		}
		nc := 4 + vr.Choose(0, 1)
		nr := nc - vr.Choose(0, 1)
		p.agg = &CosiAggregator{Snapshot: p.snap, Commitments: map[int]*crypto.Key{}, Responses: map[int]*[32]byte{}}
		for i := 0; i < nc; i++ {
			p.agg.Commitments[i] = &crypto.Key{}
		}
		for i := 0; i < nr; i++ {
			p.agg.Responses[i] = &[32]byte{}
		}
		p.complete = nc >= zzBase && nr == nc
		chain.CosiAggregators[p.snap.Hash] = p.agg
		p.verifier = &CosiVerifier{Snapshot: p.snap}
		chain.CosiVerifiers[p.snap.Hash] = p.verifier
		for _, t := range p.snap.Transactions {
			chain.CosiVerifiers[t] = p.verifier // a later proposal may take over a shared transaction's entry
		}
		props = append(props, p)
	}
	// a verifier of an unrelated (remote) proposal
	foreign := &CosiVerifier{Snapshot: &common.Snapshot{Hash: zzId(0x31)}}
	fkey := zzId(0x30)
	chain.CosiVerifiers[fkey] = foreign

	op := vr.Choose(0, 2)
	retired := []bool{false, false}
	var owned []crypto.Hash
	switch op {
	case 0:
		now := vr.U64()
		vr.Assume(now < 1<<62)
		for k, p := range props {
			retired[k] = now >= p.snap.Timestamp+config.SnapshotRoundGap && !p.complete
		}
		chain.expireCosiAggregators(now)
		vr.Cover("expire")
	case 1:
		if vr.Bool() {
			owned = []crypto.Hash{pool[vr.Choose(0, 2)]}
		}
		retired[0], retired[1] = true, true
		chain.resetCosiStateForNewRound(owned)
		vr.Cover("reset")
	case 2:
		retired[0] = true
		chain.retryCosiSnapshot(props[0].snap)
		vr.Cover("retry")
	}
	isOwned := func(h crypto.Hash) bool {
		for _, o := range owned {
			if o == h {
				return true
			}
		}
		return false
	}
	timesQueued := func(h crypto.Hash) int {
		n := 0
		for _, q := range st.queued {
			if q == h {
				n++
			}
		}
		return n
	}
	for i, h := range pool {
		inRetired, inActive := false, false
		for k, p := range props {
			for _, m := range p.members {
				if m == i {
					if retired[k] {
						inRetired = true
					} else {
						inActive = true
					}
				}
			}
		}
		pending := st.txs[i].status == 1 || st.txs[i].status == 2
		if inRetired && pending && !isOwned(h) {
			vr.Assert(timesQueued(h) >= 1, "pending-transaction-of-a-retired-proposal-is-eligible-again")
		}
		if !inRetired {
			vr.Assert(timesQueued(h) == 0, "transaction-of-no-retired-proposal-is-not-requeued")
		}
		if st.txs[i].status == 0 || st.txs[i].status == 3 {
			vr.Assert(timesQueued(h) == 0, "finalized-or-bodyless-transaction-is-not-requeued")
		}
		if isOwned(h) {
			vr.Assert(timesQueued(h) == 0, "transaction-owned-by-the-new-round-proposal-is-not-requeued")
		}
		_ = inActive
	}
	for k, p := range props {
		_, have := chain.CosiAggregators[p.snap.Hash]
		if retired[k] {
			vr.Assert(!have, "retired-proposal-aggregator-removed")
			vr.Assert(chain.CosiVerifiers[p.snap.Hash] == nil, "retired-proposal-verifier-removed")
			for _, t := range p.snap.Transactions {
				// a stale per-transaction entry would make the next proposal of t defer to a dead owner
				vr.Assert(chain.CosiVerifiers[t] != p.verifier, "retired-proposal-transaction-entries-removed")
			}
		} else {
			vr.Assert(have, "active-proposal-aggregator-kept")
			vr.Assert(chain.CosiVerifiers[p.snap.Hash] == p.verifier, "active-proposal-verifier-kept")
		}
	}
	if op != 1 {
		vr.Assert(chain.CosiVerifiers[fkey] == foreign, "unrelated-verifier-kept")
	}
}
