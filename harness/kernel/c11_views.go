package kernel

import (
	"github.com/MixinNetwork/mixin/common"
	"github.com/MixinNetwork/mixin/config"
	"github.com/MixinNetwork/mixin/crypto"
	vr "github.com/MixinNetwork/mixin/zzrt"
)

func zzSameNodes(a, b []*CNode) bool {
	if len(a) != len(b) {
		return false
	}
	same := true
	for i := range a {
		same = vr.And(same, a[i].IdForNetwork == b[i].IdForNetwork)
		same = vr.And(same, a[i].Signer.PublicSpendKey == b[i].Signer.PublicSpendKey)
		same = vr.And(same, a[i].Timestamp == b[i].Timestamp)
		same = vr.And(same, a[i].State == b[i].State)
		same = vr.And(same, a[i].ConsensusIndex == b[i].ConsensusIndex)
	}
	return same
}

func zzSameKeys(ia []crypto.Hash, ka []*crypto.Key, ib []crypto.Hash, kb []*crypto.Key) bool {
	if len(ia) != len(ib) || len(ka) != len(kb) || len(ia) != len(ka) {
		return false
	}
	same := true
	for i := range ia {
		same = vr.And(same, ia[i] == ib[i])
		same = vr.And(same, *ka[i] == *kb[i])
	}
	return same
}

// ZZ_C11_views: the views reported for a timestamp ts by a node that knows the full
// membership history equal those reported by a node that knows only the records strictly
// before ts' >= ts (the last record, dated at or after ts, is withheld): membership lists
// with consensus indexes and signer keys, thresholds, pledging node, consensus key vectors
// and the elected operator. Queries are made in both orders.
func ZZ_C11_views() {
	extra := 1
	if vr.Tier() > 0 {
		extra = 3
	}
	const genesis = 8 // one more than the minimum, so that a removal candidate exists inside the daily window
	m := zzBuildNode(extra, genesis)
	full := m.node
	if len(m.records) == genesis {
		return
	}
	last := m.records[len(m.records)-1]
	prefix := &Node{genesisNodesMap: full.genesisNodesMap, genesisNodes: full.genesisNodes, networkId: full.networkId, Epoch: full.Epoch}
	prefix.allNodesSortedWithState = m.records[:len(m.records)-1]
	prefix.nodeStateSequences = prefix.buildNodeStateSequences(prefix.allNodesSortedWithState, false)
	prefix.acceptedNodeStateSequences = prefix.buildNodeStateSequences(prefix.allNodesSortedWithState, true)

	ts := vr.U64()
	vr.Assume(ts >= full.Epoch && ts <= last.Timestamp) // the withheld record does not precede ts
	vr.Cover("later-record-withheld")
	if vr.Tier() > 0 && vr.Bool() {
		// a query at another time first must not disturb the answer (no hidden state)
		other := vr.U64()
		vr.Assume(other >= full.Epoch && other < 1<<62)
		full.NodesListWithoutState(other, false)
		full.ConsensusThreshold(other, true)
	}
	for _, acceptedOnly := range []bool{false, true} {
		a := full.NodesListWithoutState(ts, acceptedOnly)
		b := prefix.NodesListWithoutState(ts, acceptedOnly)
		vr.Assert(zzSameNodes(a, b), "membership-list-indexes-and-keys-ignore-later-records")
	}
	for _, final := range []bool{false, true} {
		vr.Assert(full.ConsensusThreshold(ts, final) == prefix.ConsensusThreshold(ts, final), "threshold-ignores-later-records")
	}
	pa, pb := full.PledgingNode(ts), prefix.PledgingNode(ts)
	vr.Assert((pa == nil) == (pb == nil), "pledging-node-ignores-later-records")
	if pa != nil && pb != nil {
		vr.Assert(pa.IdForNetwork == pb.IdForNetwork && pa.Signer.PublicSpendKey == pb.Signer.PublicSpendKey, "pledging-node-ignores-later-records")
		vr.Cover("pledging")
	}
	round := uint64(vr.Choose(0, 1))
	ca := &Chain{node: full, ChainId: zzId(1), State: &ChainState{}}
	cb := &Chain{node: prefix, ChainId: zzId(1), State: &ChainState{}}
	// the reported indexes must not be changed by asking for the key vector (no shared state)
	type idx struct {
		id crypto.Hash
		i  int
	}
	var beforeIdx []idx
	for _, cn := range full.NodesListWithoutState(ts, false) {
		beforeIdx = append(beforeIdx, idx{cn.IdForNetwork, cn.ConsensusIndex})
	}
	ia, ka := ca.ConsensusKeys(round, ts)
	for i, cn := range full.NodesListWithoutState(ts, false) {
		if i < len(beforeIdx) {
			vr.Assert(cn.IdForNetwork == beforeIdx[i].id && cn.ConsensusIndex == beforeIdx[i].i, "consensus-indexes-unchanged-by-a-key-vector-query")
		}
	}
	ib, kb := cb.ConsensusKeys(round, ts)
	vr.Assert(zzSameKeys(ia, ka, ib, kb), "signer-key-vector-ignores-later-records")
	if len(full.NodesListWithoutState(ts, true)) >= config.KernelMinimumNodesCount {
		for _, op := range []byte{common.TransactionTypeMint, common.TransactionTypeNodeRemove} {
			vr.Assert(full.electSnapshotNode(op, ts) == prefix.electSnapshotNode(op, ts), "elected-operator-ignores-later-records")
		}
		vr.Cover("elected")
	}
}
