package kernel

import (
	"time"

	"github.com/MixinNetwork/mixin/common"
	"github.com/MixinNetwork/mixin/config"
	"github.com/MixinNetwork/mixin/crypto"
	"github.com/MixinNetwork/mixin/p2p"
	"github.com/MixinNetwork/mixin/storage"
	vr "github.com/MixinNetwork/mixin/zzrt"
)

var zzBatches [][]crypto.Hash
var zzPeers []crypto.Hash

func ZZStub_Node_QueueState(node *Node) (uint64, uint64, map[string][2]uint64) { return 0, 0, nil }
func ZZStub_Node_ListWorkingAcceptedNodes(node *Node, timestamp uint64) []*CNode {
	return []*CNode{{IdForNetwork: zzId(1)}, {IdForNetwork: zzId(2)}}
}
func ZZStub_Node_filterLeadingNodes(node *Node, all []*CNode) ([]*CNode, map[crypto.Hash]bool) {
	return all, map[crypto.Hash]bool{}
}
func ZZStub_Node_electSnapshotNode(node *Node, operation byte, now uint64) crypto.Hash {
	return crypto.Hash{}
}
func ZZStub_Node_findSnapshotNodes(node *Node, all, leading []*CNode, filter map[crypto.Hash]bool, now time.Time, hash crypto.Hash) []crypto.Hash {
	return []crypto.Hash{zzId(2)}
}
func ZZStub_Node_chainCanProposeSnapshot(node *Node, all []*CNode, chain *Chain, timestamp uint64) bool {
	return vr.Bool()
}
func ZZStub_Node_sendTransactionsToNode(node *Node, txs []crypto.Hash, nbor crypto.Hash) {
	zzBatches = append(zzBatches, append([]crypto.Hash{}, txs...))
	zzPeers = append(zzPeers, nbor)
}

type zzQueueStore struct {
	storage.Store
	txs []*common.VersionedTransaction
}

func (s *zzQueueStore) CacheRetrieveTransactions(limit int) ([]*common.VersionedTransaction, error) {
	return s.txs, nil
}
func (s *zzQueueStore) ReadTransaction(h crypto.Hash) (*common.VersionedTransaction, string, error) {
	return nil, "", nil
}
func (s *zzQueueStore) CacheRemoveTransactions(hashes []crypto.Hash) error { return nil }

// ZZ_C31_batch: every batch the queue loop hands to a peer builds a message within the transport maximum.
func ZZ_C31_batch() {
	st := &zzQueueStore{}
	node := &Node{persistStore: st, IdForNetwork: zzId(1)}
	n := vr.Choose(1, 10)
	signed := map[crypto.Hash]int{}
	for i := 0; i < n; i++ {
		tx := &common.VersionedTransaction{}
		tx.Version = common.TxVersionHashSignature
		tx.Inputs = []*common.Input{{Hash: zzH()}}
		tx.Outputs = []*common.Output{{Type: common.OutputTypeScript, Amount: common.NewInteger(1)}}
		sz := &common.ZZSizes{Payload: vr.Int(), Signed: vr.Int()}
		// admission facts: the decoder rejects encodings above TransactionMaximumSize, the payload is the signed encoding minus signatures
		vr.Assume(sz.Payload > 0 && sz.Payload <= sz.Signed && sz.Signed <= config.TransactionMaximumSize)
		common.ZZSizeOf[tx] = sz
		h := tx.PayloadHash()
		for _, o := range st.txs {
			vr.Assume(o.PayloadHash() != h)
		}
		signed[h] = sz.Signed
		st.txs = append(st.txs, tx)
	}
	node.popAndProcessCacheQueue()
	vr.Cover("processed")
	for _, b := range zzBatches {
		// buildTransactionsMessage: type byte + count byte + (4-byte length + signed encoding) per member
		size := 2
		for _, h := range b {
			size += 4 + signed[h]
		}
		if len(b) > 1 {
			vr.Cover("multi-member-batch")
		}
		vr.Assert(len(b) <= common.SnapshotTransactionsMaximum, "batch-member-count-fits-one-byte")
		vr.Assert(size <= p2p.TransportMessageMaxSize-65, "batch-message-fits-transport-maximum-even-when-relayed")
	}
}
