package kernel

import (
	"github.com/MixinNetwork/mixin/common"
	"github.com/MixinNetwork/mixin/config"
	"github.com/MixinNetwork/mixin/crypto"
	vr "github.com/MixinNetwork/mixin/zzrt"
)

func zzRoundSnapshot(number uint64, ntx int) *common.Snapshot {
	s := &common.Snapshot{Version: common.SnapshotVersionCommonEncoding, RoundNumber: number, Timestamp: vr.U64()}
	vr.Assume(s.Timestamp < 1<<62)
	vr.Fill(s.Hash[:])
	for i := 0; i < ntx; i++ {
		var h crypto.Hash
		vr.Fill(h[:])
		for _, o := range s.Transactions {
			vr.Assume(o != h) // a snapshot's transactions are strictly increasing, hence distinct (C07)
		}
		s.Transactions = append(s.Transactions, h)
	}
	return s
}

// ZZ_C19: inductive step on a live round. From ANY round state satisfying the
// invariant I (distinct hashes, timestamps and transactions; one day; span < gap), a
// candidate the real validateSnapshot accepts keeps I, and closing the round cannot fail.
func ZZ_C19() {
	maxN := 2
	if vr.Tier() > 0 {
		maxN = 3
	}
	n := vr.Choose(0, maxN)
	c := &CacheRound{Number: vr.U64(), index: newRoundIndexCache()}
	vr.Fill(c.NodeId[:])
	vr.Assume(c.Number > 0) // round 0 is the single-snapshot genesis / acceptance round (C07: exactly one transaction)
	for i := 0; i < n; i++ {
		c.Snapshots = append(c.Snapshots, zzRoundSnapshot(c.Number, vr.Choose(1, 2)))
	}
	inv := func(list []*common.Snapshot) bool {
		ok := true
		for i := range list {
			for j := i + 1; j < len(list); j++ {
				a, b := list[i], list[j]
				ok = vr.And(ok, a.Hash != b.Hash)
				ok = vr.And(ok, a.Timestamp != b.Timestamp)
				ok = vr.And(ok, a.Timestamp/OneDay == b.Timestamp/OneDay)
				// span strictly below the round gap, both directions
				ok = vr.And(ok, vr.And(a.Timestamp < b.Timestamp+config.SnapshotRoundGap, b.Timestamp < a.Timestamp+config.SnapshotRoundGap))
				for _, x := range a.Transactions {
					for _, y := range b.Transactions {
						ok = vr.And(ok, x != y)
					}
				}
			}
		}
		return ok
	}
	vr.Assume(inv(c.Snapshots))
	s := zzRoundSnapshot(c.Number, vr.Choose(1, 2))
	vr.Assume(s.Hash.HasValue())
	before := len(c.Snapshots)
	// read-only validation never mutates the round
	errRO := c.ValidateSnapshot(s)
	vr.Assert(len(c.Snapshots) == before, "validate-only-does-not-add")
	err := c.validateSnapshot(s, true)
	vr.Assert((err == nil) == (errRO == nil), "validate-and-add-agree")
	if err != nil {
		vr.Cover("rejected")
		vr.Assert(len(c.Snapshots) == before, "rejected-candidate-not-added")
		return
	}
	vr.Cover("accepted")
	vr.Assert(len(c.Snapshots) == before+1, "accepted-candidate-added-once")
	vr.Assert(inv(c.Snapshots), "invariant-preserved")
	// closing never fails: asFinal panics if the span reached the gap
	f := c.asFinal()
	vr.Assert(f != nil && f.Number == c.Number && f.NodeId == c.NodeId, "final-round-identity")
	vr.Assert(f.End < f.Start+config.SnapshotRoundGap, "final-span-below-gap")
}
