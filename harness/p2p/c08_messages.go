package p2p

import (
	"bytes"

	"github.com/MixinNetwork/mixin/common"
	"github.com/MixinNetwork/mixin/crypto"
	vr "github.com/MixinNetwork/mixin/zzrt"
	"github.com/dgraph-io/ristretto/v2"
)

// ZZ_C08_A: parsing ANY byte string as a peer message never panics, and points that
// must be valid curve points were checked before the message is returned.
func ZZ_C08_A() {
	maxL := 140
	if vr.Tier() > 0 {
		maxL = 330
	}
	L := vr.Choose(0, maxL)
	vr.MakeCap(2)
	data := vr.Bytes(L)
	if L > 40 {
		// plain bundles have no header: every split of the buffer into <=2 length-prefixed
		// members is a path, so they are explored up to 40 bytes only; the
		// challenge/full-challenge branches parse the same payload format after their headers
		vr.Assume(data[0] != PeerMessageTypeTransactionBundle && data[0] != PeerMessageTypeFinalizedTransactionBundle)
	}
	msg, err := parseNetworkMessage(2, data)
	if err != nil {
		vr.Cover("rejected")
		vr.Assert(msg == nil, "error-means-no-message")
		return
	}
	vr.Cover("parsed")
	vr.Assert(msg != nil, "message-non-nil")
	vr.Assert(L >= 1, "empty-never-parses")
	vr.Assert(msg.Type == data[0], "type-is-first-byte")
	switch msg.Type {
	case PeerMessageTypePreCommitments:
		vr.Cover("pre-commitments")
		for _, k := range msg.Commitments {
			vr.Assert(k.CheckKey(), "pre-commitment-point-checked")
		}
		vr.Assert(msg.signature != nil, "pre-commitment-signature-present")
	case PeerMessageTypeBatchSnapshotAnnouncement:
		vr.Cover("announcement")
		vr.Assert(msg.Commitment.CheckKey(), "announcement-commitment-checked")
		vr.Assert(msg.Snapshot != nil, "announcement-snapshot")
		vr.Assert(msg.signature != nil, "announcement-signature-present")
	case PeerMessageTypeBatchSnapshotCommitment:
		vr.Cover("commitment")
		vr.Assert(msg.Commitment.CheckKey(), "commitment-point-checked")
		vr.Assert(msg.signature != nil, "commitment-signature-present")
	case PeerMessageTypeBatchFullChallenge:
		vr.Cover("full-challenge")
		vr.Assert(msg.Commitment.CheckKey(), "full-challenge-commitment-checked")
		vr.Assert(msg.Challenge.CheckKey(), "full-challenge-challenge-checked")
		vr.Assert(msg.Snapshot != nil && msg.Snapshot.Signature == nil, "full-challenge-snapshot-unsigned-copy")
		vr.Assert(msg.Cosi.Mask != 0, "full-challenge-cosi-present")
	case PeerMessageTypeGraph:
		vr.Cover("graph")
		vr.Assert(msg.signature != nil, "graph-signature-present")
	}
}

type zzHandle struct{ points []*SyncPoint }

func (h *zzHandle) GetCacheStore() *ristretto.Cache[[]byte, any] { panic("unused") }
func (h *zzHandle) SignData(data []byte) crypto.Signature {
	var s crypto.Signature
	copy(s[:], vr.UFBytes("signdata", 64, data))
	return s
}
func (h *zzHandle) BuildAuthenticationMessage(relayerId crypto.Hash) []byte { panic("unused") }
func (h *zzHandle) AuthenticateAs(recipientId crypto.Hash, msg []byte, timeoutSec int64) (*AuthToken, error) {
	panic("unused")
}
func (h *zzHandle) BuildGraph() []*SyncPoint { return h.points }
func (h *zzHandle) UpdateSyncPoint(peerId crypto.Hash, points []*SyncPoint, data []byte, sig *crypto.Signature) error {
	panic("unused")
}
func (h *zzHandle) ReadAllNodesWithoutState() []crypto.Hash { panic("unused") }
func (h *zzHandle) ReadSnapshotsSinceTopology(offset, count uint64) ([]*common.SnapshotWithTopologicalOrder, error) {
	panic("unused")
}
func (h *zzHandle) ReadSnapshotsForNodeRound(nodeIdWithNetwork crypto.Hash, round uint64) ([]*common.SnapshotWithTopologicalOrder, error) {
	panic("unused")
}
func (h *zzHandle) SendTransactionToPeer(peerId, tx crypto.Hash) error { panic("unused") }
func (h *zzHandle) SendTransactionsToPeer(peerId crypto.Hash, txs []crypto.Hash, finalized bool) error {
	panic("unused")
}
func (h *zzHandle) CacheQueueTransactions(peerId crypto.Hash, ver []*common.VersionedTransaction) error {
	panic("unused")
}
func (h *zzHandle) CacheStoreTransactions(peerId crypto.Hash, ver []*common.VersionedTransaction) error {
	panic("unused")
}
func (h *zzHandle) CosiQueueExternalAnnouncement(peerId crypto.Hash, s *common.Snapshot, R *crypto.Key, sig *crypto.Signature) error {
	panic("unused")
}
func (h *zzHandle) CosiAggregateSelfCommitments(peerId crypto.Hash, snap crypto.Hash, commitment *crypto.Key, wantTxs []crypto.Hash, data []byte, sig *crypto.Signature) error {
	panic("unused")
}
func (h *zzHandle) CosiQueueExternalChallenge(peerId crypto.Hash, snap crypto.Hash, cosi *crypto.CosiSignature, txs []*common.VersionedTransaction) error {
	panic("unused")
}
func (h *zzHandle) CosiQueueExternalFullChallenge(peerId crypto.Hash, s *common.Snapshot, commitment, challenge *crypto.Key, cosi *crypto.CosiSignature, txs []*common.VersionedTransaction) error {
	panic("unused")
}
func (h *zzHandle) CosiAggregateSelfResponses(peerId crypto.Hash, snap crypto.Hash, response *[32]byte) error {
	panic("unused")
}
func (h *zzHandle) VerifyAndQueueAppendSnapshotFinalization(peerId crypto.Hash, s *common.Snapshot) error {
	panic("unused")
}
func (h *zzHandle) CosiQueueExternalPreCommitments(peerId crypto.Hash, commitments []*crypto.Key, data []byte, sig *crypto.Signature) error {
	panic("unused")
}

func zzHash() (h crypto.Hash) { vr.Fill(h[:]); return }
func zzKey() (k crypto.Key)   { vr.Fill(k[:]); return }

func zzSnapshot(n int, signed bool) *common.Snapshot {
	s := &common.Snapshot{Version: common.SnapshotVersionCommonEncoding, NodeId: zzHash(), RoundNumber: vr.U64(), Timestamp: vr.U64()}
	vr.Assume(s.RoundNumber != 0)
	s.References = &common.RoundLink{Self: zzHash(), External: zzHash()}
	for i := 0; i < n; i++ {
		s.Transactions = append(s.Transactions, zzHash())
	}
	for i := 1; i < n; i++ {
		vr.Assume(bytes.Compare(s.Transactions[i-1][:], s.Transactions[i][:]) < 0)
	}
	if signed {
		s.Signature = &crypto.CosiSignature{Mask: vr.U64()}
		vr.Assume(s.Signature.Mask != 0)
		vr.Fill(s.Signature.Signature[:])
	}
	return s
}

func zzTx() *common.VersionedTransaction {
	tx := common.Transaction{Version: common.TxVersionHashSignature, Asset: zzHash()}
	tx.Inputs = []*common.Input{{Hash: zzHash(), Index: 1}}
	k := zzKey()
	tx.Outputs = []*common.Output{{Type: common.OutputTypeScript, Amount: common.NewInteger(1), Keys: []*crypto.Key{&k}, Mask: zzKey(), Script: common.Script{0xff, 0xfe, 1}}}
	tx.Extra = vr.Bytes(vr.Choose(0, 2))
	return &common.VersionedTransaction{SignedTransaction: common.SignedTransaction{Transaction: tx}}
}

func zzSameSnapshot(a, b *common.Snapshot, pfx string) {
	vr.Assert(b != nil, pfx+"snapshot-present")
	if b == nil {
		return
	}
	vr.Assert(a.Version == b.Version && a.NodeId == b.NodeId && a.RoundNumber == b.RoundNumber && a.Timestamp == b.Timestamp, pfx+"snapshot-scalars")
	vr.Assert(b.References != nil && *a.References == *b.References, pfx+"snapshot-references")
	vr.Assert(len(a.Transactions) == len(b.Transactions), pfx+"snapshot-tx-count")
	if len(a.Transactions) == len(b.Transactions) {
		for i := range a.Transactions {
			vr.Assert(a.Transactions[i] == b.Transactions[i], pfx+"snapshot-tx")
		}
	}
}

func zzSameTxs(a, b []*common.VersionedTransaction, pfx string) {
	vr.Assert(len(a) == len(b), pfx+"tx-count")
	if len(a) != len(b) {
		return
	}
	for i := range a {
		vr.Assert(bytes.Equal(a[i].Marshal(), b[i].Marshal()), pfx+"tx-bytes")
	}
}

// ZZ_C08_C: every message the node builds parses back to the same type and fields.
func ZZ_C08_C() {
	h := &zzHandle{}
	kind := vr.Choose(0, 10)
	switch kind {
	case 0: // snapshot announcement
		s := zzSnapshot(vr.Choose(1, 2), false)
		R := zzKey()
		vr.Assume(R.CheckKey())
		data := s.VersionedMarshal()
		data = append(R[:], data...)
		sig := h.SignData(data) // the builder signs with a private key; layout is what matters here
		data = append(sig[:], data...)
		data = append([]byte{PeerMessageTypeBatchSnapshotAnnouncement}, data...)
		msg, err := parseNetworkMessage(2, data)
		vr.Assert(err == nil, "announcement-parses")
		if err == nil {
			vr.Cover("announcement")
			vr.Assert(msg.Type == PeerMessageTypeBatchSnapshotAnnouncement, "announcement-type")
			vr.Assert(msg.Commitment == R, "announcement-commitment")
			vr.Assert(*msg.signature == sig, "announcement-signature")
			zzSameSnapshot(s, msg.Snapshot, "announcement-")
		}
	case 1: // commitment
		snap, R := zzHash(), zzKey()
		vr.Assume(R.CheckKey())
		var want []crypto.Hash
		for i := vr.Choose(0, 3); i > 0; i-- {
			want = append(want, zzHash())
		}
		data := buildBatchSnapshotCommitmentMessage(h, snap, R, want)
		msg, err := parseNetworkMessage(2, data)
		vr.Assert(err == nil, "commitment-parses")
		if err == nil {
			vr.Cover("commitment")
			vr.Assert(msg.Type == PeerMessageTypeBatchSnapshotCommitment && msg.SnapshotHash == snap && msg.Commitment == R, "commitment-fields")
			vr.Assert(len(msg.WantTxs) == len(want), "commitment-want-count")
			for i := range want {
				if i < len(msg.WantTxs) {
					vr.Assert(msg.WantTxs[i] == want[i], "commitment-want")
				}
			}
			vr.Assert(*msg.signature == h.SignData(msg.unsigned), "commitment-signed-region")
		}
	case 2: // transaction challenge
		snap := zzHash()
		cosi := &crypto.CosiSignature{Mask: vr.U64()}
		vr.Fill(cosi.Signature[:])
		var txs []*common.VersionedTransaction
		for i := vr.Choose(0, 2); i > 0; i-- {
			txs = append(txs, zzTx())
		}
		data := buildBatchTransactionChallengeMessage(snap, cosi, txs)
		msg, err := parseNetworkMessage(2, data)
		vr.Assert(err == nil, "challenge-parses")
		if err == nil {
			vr.Cover("challenge")
			vr.Assert(msg.Type == PeerMessageTypeBatchTransactionChallenge && msg.SnapshotHash == snap, "challenge-fields")
			vr.Assert(msg.Cosi.Mask == cosi.Mask && msg.Cosi.Signature == cosi.Signature, "challenge-cosi")
			zzSameTxs(txs, msg.Transactions, "challenge-")
		}
	case 3: // full challenge
		s := zzSnapshot(vr.Choose(1, 2), true)
		mask, sg := s.Signature.Mask, s.Signature.Signature
		cm, ch := zzKey(), zzKey()
		vr.Assume(cm.CheckKey() && ch.CheckKey())
		var txs []*common.VersionedTransaction
		for i := vr.Choose(0, 1); i > 0; i-- {
			txs = append(txs, zzTx())
		}
		data := buildBatchFullChallengeMessage(s, &cm, &ch, txs)
		msg, err := parseNetworkMessage(2, data)
		vr.Assert(err == nil, "full-challenge-parses")
		if err == nil {
			vr.Cover("full-challenge")
			vr.Assert(msg.Type == PeerMessageTypeBatchFullChallenge && msg.Commitment == cm && msg.Challenge == ch, "full-challenge-fields")
			vr.Assert(msg.Cosi.Mask == mask && msg.Cosi.Signature == sg, "full-challenge-cosi")
			zzSameSnapshot(s, msg.Snapshot, "full-challenge-")
			zzSameTxs(txs, msg.Transactions, "full-challenge-")
		}
	case 4: // response
		snap := zzHash()
		var si [32]byte
		vr.Fill(si[:])
		msg, err := parseNetworkMessage(2, buildSnapshotResponseMessage(snap, &si))
		vr.Assert(err == nil, "response-parses")
		if err == nil {
			vr.Cover("response")
			vr.Assert(msg.Type == PeerMessageTypeBatchSnapshotResponse && msg.SnapshotHash == snap && msg.Response == si, "response-fields")
		}
	case 5: // finalization
		s := zzSnapshot(vr.Choose(1, 2), true)
		mask, sg := s.Signature.Mask, s.Signature.Signature
		msg, err := parseNetworkMessage(2, buildBatchSnapshotFinalizationMessage(s))
		vr.Assert(err == nil, "finalization-parses")
		if err == nil {
			vr.Cover("finalization")
			vr.Assert(msg.Type == PeerMessageTypeBatchSnapshotFinalization, "finalization-type")
			zzSameSnapshot(s, msg.Snapshot, "finalization-")
			vr.Assert(msg.Snapshot.Signature != nil && msg.Snapshot.Signature.Mask == mask && msg.Snapshot.Signature.Signature == sg, "finalization-signature")
		}
	case 6: // confirm / request
		x := zzHash()
		m1, e1 := parseNetworkMessage(2, buildSnapshotConfirmMessage(x))
		m2, e2 := parseNetworkMessage(2, buildTransactionRequestMessage(x))
		vr.Assert(e1 == nil && e2 == nil, "confirm-request-parse")
		if e1 == nil && e2 == nil {
			vr.Cover("confirm-request")
			vr.Assert(m1.Type == PeerMessageTypeSnapshotConfirm && m1.SnapshotHash == x, "confirm-fields")
			vr.Assert(m2.Type == PeerMessageTypeTransactionRequest && m2.TransactionHash == x, "request-fields")
		}
	case 7: // single transaction and bundles
		tx := zzTx()
		m1, e1 := parseNetworkMessage(2, buildTransactionMessage(tx))
		vr.Assert(e1 == nil, "transaction-parses")
		if e1 == nil {
			vr.Cover("transaction")
			vr.Assert(m1.Type == PeerMessageTypeTransaction, "transaction-type")
			zzSameTxs([]*common.VersionedTransaction{tx}, m1.Transactions, "transaction-")
		}
		typ := byte(PeerMessageTypeTransactionBundle)
		if vr.Bool() {
			typ = PeerMessageTypeFinalizedTransactionBundle
		}
		txs := []*common.VersionedTransaction{tx}
		if vr.Bool() {
			txs = append(txs, zzTx())
		}
		m2, e2 := parseNetworkMessage(2, buildTransactionsMessage(txs, typ))
		vr.Assert(e2 == nil, "bundle-parses")
		if e2 == nil {
			vr.Cover("bundle")
			vr.Assert(m2.Type == typ, "bundle-type")
			zzSameTxs(txs, m2.Transactions, "bundle-")
		}
	case 8: // graph
		for i := vr.Choose(0, 3); i > 0; i-- {
			h.points = append(h.points, &SyncPoint{NodeId: zzHash(), Number: vr.U64(), Hash: zzHash()})
		}
		msg, err := parseNetworkMessage(2, buildGraphMessage(h))
		vr.Assert(err == nil, "graph-parses")
		if err == nil {
			vr.Cover("graph")
			vr.Assert(msg.Type == PeerMessageTypeGraph && len(msg.Graph) == len(h.points), "graph-count")
			for i := range h.points {
				if i < len(msg.Graph) {
					vr.Assert(msg.Graph[i].NodeId == h.points[i].NodeId && msg.Graph[i].Number == h.points[i].Number && msg.Graph[i].Hash == h.points[i].Hash, "graph-point")
				}
			}
			vr.Assert(*msg.signature == h.SignData(msg.unsigned), "graph-signed-region")
		}
	case 9: // pre-commitments
		var cs []*crypto.Key
		n := vr.Choose(1, 4)
		if n == 4 {
			// the largest list the builder emits (it panics above 1024): the parser must take it back
			n = 1024
			k := zzKey()
			vr.Assume(k.CheckKey())
			for i := 0; i < n; i++ {
				cs = append(cs, &k)
			}
			vr.Cover("pre-commitments-at-the-builder-limit")
		} else {
			for i := n; i > 0; i-- {
				k := zzKey()
				vr.Assume(k.CheckKey())
				cs = append(cs, &k)
			}
		}
		msg, err := parseNetworkMessage(2, buildCommitmentsMessage(h, cs))
		vr.Assert(err == nil, "pre-commitments-parse")
		if err == nil {
			vr.Cover("pre-commitments")
			vr.Assert(msg.Type == PeerMessageTypePreCommitments && len(msg.Commitments) == len(cs), "pre-commitments-count")
			for i := range cs {
				if i < len(msg.Commitments) {
					vr.Assert(*msg.Commitments[i] == *cs[i], "pre-commitments-key")
				}
			}
			vr.Assert(*msg.signature == h.SignData(msg.unsigned), "pre-commitments-signed-region")
		}
	case 10: // authentication envelope
		payload := vr.Bytes(authenticationPayloadSize)
		msg, err := parseNetworkMessage(2, buildAuthenticationMessage(payload))
		vr.Assert(err == nil, "authentication-parses")
		if err == nil {
			vr.Cover("authentication")
			vr.Assert(msg.Type == PeerMessageTypeAuthentication && bytes.Equal(msg.Data, payload), "authentication-data")
		}
	}
}
