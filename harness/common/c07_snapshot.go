package common

import (
	"bytes"

	"github.com/MixinNetwork/mixin/crypto"
	vr "github.com/MixinNetwork/mixin/zzrt"
)

// ZZ_C07_A: canonicity over ALL byte strings of length L.
// Every byte of the buffer is symbolic. If the real decoder accepts the buffer,
// the buffer must be exactly the real encoder's output for the decoded value,
// with the full 8-byte topology suffix or with no suffix at all.
func ZZ_C07_A() {
	maxL := 200
	if vr.Tier() > 0 {
		maxL = 300
	}
	L := vr.Choose(0, maxL)
	b := vr.Bytes(L)
	orig := append([]byte{}, b...)
	if vr.Tier() == 0 {
		// quick tier only: bound the DECLARED transaction count to 4 (a larger count cannot fit in
		// 200 bytes and costs one path per value 5..255 at the decoder's make()); thorough has no such bound
		if L >= 48 && b[44] == 0 && b[45] == 0 {
			vr.Assume(b[46] == 0 && b[47] <= 4)
		} else if L >= 112 && b[44] == 0 && b[45] == 2 {
			vr.Assume(b[110] == 0 && b[111] <= 4)
		}
	}
	s, err := UnmarshalVersionedSnapshot(b)
	if err != nil {
		vr.Cover("rejected")
		return
	}
	vr.Cover("accepted")
	vr.Assert(s != nil, "non-nil-result")
	vr.Assert(s.Snapshot != nil, "non-nil-snapshot")
	n := len(s.Transactions)
	vr.Assert(n >= 1, "tx-count-min")
	vr.Assert(n <= 255, "tx-count-max")
	for i := 1; i < n; i++ {
		vr.Assert(bytes.Compare(s.Transactions[i-1][:], s.Transactions[i][:]) < 0, "tx-strictly-increasing")
	}
	if s.RoundNumber == 0 {
		vr.Assert(n == 1, "round0-one-tx")
		vr.Assert(s.References == nil, "round0-no-refs")
		vr.Cover("round0")
	} else {
		vr.Assert(s.References != nil, "later-round-has-refs")
		vr.Cover("later-round")
	}
	if s.Signature != nil {
		vr.Cover("signed")
	}
	enc := s.VersionedMarshal()
	full := bytes.Equal(enc, orig)
	short := len(enc) >= 8 && bytes.Equal(enc[:len(enc)-8], orig)
	vr.Assert(vr.Or(full, short), "canonical-full-or-no-suffix")
	if len(enc) == len(orig) {
		vr.Cover("with-suffix")
	} else {
		vr.Cover("no-suffix")
		vr.Assert(s.TopologicalOrder == 0, "no-suffix-topo-zero")
	}
}

func zzSymSnapshot(n int, refs bool) *Snapshot {
	s := &Snapshot{Version: SnapshotVersionCommonEncoding}
	vr.Fill(s.NodeId[:])
	s.RoundNumber = vr.U64()
	if refs {
		s.References = &RoundLink{}
		vr.Fill(s.References.Self[:])
		vr.Fill(s.References.External[:])
	}
	s.Timestamp = vr.U64()
	s.Transactions = make([]crypto.Hash, n)
	for i := range s.Transactions {
		vr.Fill(s.Transactions[i][:])
	}
	return s
}

// ZZ_C07_B: the payload (what the snapshot hash is computed from) does not read the
// signature, the stored hash or the topology, and is injective in
// (version, node, round, references, transaction set, timestamp).
func ZZ_C07_B() {
	n1 := vr.Choose(1, 3)
	r1 := vr.Choose(0, 1) == 1
	s1 := zzSymSnapshot(n1, r1)
	vr.Assume(s1.RoundNumber != 0 || n1 == 1)
	for i := 1; i < n1; i++ { // sorted, distinct: the set
		vr.Assume(bytes.Compare(s1.Transactions[i-1][:], s1.Transactions[i][:]) < 0)
	}
	p1 := append([]byte{}, s1.versionedPayload()...)

	// independence from authorization / local data
	t := &Snapshot{Version: s1.Version, NodeId: s1.NodeId, RoundNumber: s1.RoundNumber, References: s1.References,
		Timestamp: s1.Timestamp, Transactions: append([]crypto.Hash{}, s1.Transactions...)}
	t.Signature = &crypto.CosiSignature{Mask: vr.U64()}
	vr.Fill(t.Signature.Signature[:])
	vr.Fill(t.Hash[:])
	pt := t.versionedPayload()
	vr.Assert(bytes.Equal(p1, pt), "payload-ignores-signature-and-hash")
	h1, ht := s1.PayloadHash(), t.PayloadHash()
	vr.Assert(h1 == ht, "hash-ignores-signature-and-hash")
	vr.Assert(h1 == crypto.Blake3Hash(p1), "hash-is-blake3-of-payload")
	topo := &SnapshotWithTopologicalOrder{Snapshot: t, TopologicalOrder: vr.U64()}
	vr.Assert(topo.PayloadHash() == h1, "hash-ignores-topology")

	// injectivity
	n2 := vr.Choose(1, 3)
	r2 := vr.Choose(0, 1) == 1
	s2 := zzSymSnapshot(n2, r2)
	vr.Assume(s2.RoundNumber != 0 || n2 == 1)
	for i := 1; i < n2; i++ {
		vr.Assume(bytes.Compare(s2.Transactions[i-1][:], s2.Transactions[i][:]) < 0)
	}
	p2 := s2.versionedPayload()
	if !bytes.Equal(p1, p2) {
		vr.Cover("different-payload")
		return
	}
	vr.Cover("equal-payload")
	vr.Assert(n1 == n2, "inj-count")
	vr.Assert(r1 == r2, "inj-refs-presence")
	vr.Assert(s1.NodeId == s2.NodeId, "inj-node")
	vr.Assert(s1.RoundNumber == s2.RoundNumber, "inj-round")
	vr.Assert(s1.Timestamp == s2.Timestamp, "inj-timestamp")
	if r1 && r2 {
		vr.Assert(*s1.References == *s2.References, "inj-references")
	}
	if n1 == n2 {
		for i := 0; i < n1; i++ {
			vr.Assert(s1.Transactions[i] == s2.Transactions[i], "inj-transactions")
		}
	}
}

// ZZ_C07_C: the encoder's in-place sort keeps the transaction set and rejects duplicates.
func ZZ_C07_C() {
	n := vr.Choose(1, 3)
	s := zzSymSnapshot(n, true)
	vr.Assume(s.RoundNumber != 0)
	before := append([]crypto.Hash{}, s.Transactions...)
	dup := false
	for i := 0; i < n; i++ {
		for j := i + 1; j < n; j++ {
			dup = vr.Or(dup, before[i] == before[j])
		}
	}
	panicked := vr.Catch(func() { s.VersionedMarshal() })
	vr.Assert(panicked == dup, "encoder-panics-iff-duplicate")
	if panicked {
		vr.Cover("duplicate-rejected")
		return
	}
	vr.Cover("encoded")
	for i := 1; i < n; i++ {
		vr.Assert(bytes.Compare(s.Transactions[i-1][:], s.Transactions[i][:]) < 0, "sorted-after-encode")
	}
	for i := 0; i < n; i++ { // permutation: every original hash is still present
		found := false
		for j := 0; j < n; j++ {
			found = vr.Or(found, before[i] == s.Transactions[j])
		}
		vr.Assert(found, "sort-keeps-set")
	}
}
