package common

import "math/big"

// ZZVerifyDepositData exposes the real (unexported) deposit validation rule to the
// storage harness, so that validation and finalization run on the same real store.
func ZZVerifyDepositData(tx *Transaction, store DataStore) error {
	return tx.verifyDepositData(store)
}

// ZZIntegerFromBig builds an amount from a mathematical integer (harness helper).
func ZZIntegerFromBig(b *big.Int) (v Integer) {
	v.i.Set(b)
	return
}

// ZZBig returns the amount as a mathematical integer (harness helper).
func (x Integer) ZZBig() *big.Int { return new(big.Int).Set(&x.i) }
