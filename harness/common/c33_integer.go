package common

import (
	"math/big"

	vr "github.com/MixinNetwork/mixin/zzrt"
)

func zzInt(b *big.Int) (v Integer) {
	v.i.Set(b)
	return
}

// ZZ_C33_Arith: Integer / RationalNumber arithmetic equals exact integer arithmetic
// (amounts are integers in units of 1e-8) followed by floor, and each operation
// panics exactly when its documented guard fails. Operands are unbounded
// mathematical integers (negative values included: they must be rejected).
func ZZ_C33_Arith() {
	xb, yb := vr.BigAny(), vr.BigAny()
	x, y := zzInt(xb), zzInt(yb)
	k := vr.Int()
	kb := big.NewInt(int64(k))
	op := vr.Choose(0, 9)
	var r Integer
	switch op {
	case 0:
		pan := vr.Catch(func() { r = x.Add(y) })
		vr.Assert(pan == vr.Or(xb.Sign() < 0, yb.Sign() <= 0), "add-guard")
		if !pan {
			vr.Cover("add")
			vr.Assert(r.i.Cmp(new(big.Int).Add(xb, yb)) == 0, "add-exact")
		}
	case 1:
		pan := vr.Catch(func() { r = x.Sub(y) })
		vr.Assert(pan == vr.Or(vr.Or(xb.Sign() < 0, yb.Sign() <= 0), xb.Cmp(yb) < 0), "sub-guard")
		if !pan {
			vr.Cover("sub")
			vr.Assert(r.i.Cmp(new(big.Int).Sub(xb, yb)) == 0, "sub-exact")
			vr.Assert(r.Sign() >= 0, "sub-nonneg")
		}
	case 2:
		pan := vr.Catch(func() { r = x.Mul(k) })
		vr.Assert(pan == vr.Or(xb.Sign() < 0, k <= 0), "mul-guard")
		if !pan {
			vr.Cover("mul")
			vr.Assert(r.i.Cmp(new(big.Int).Mul(xb, kb)) == 0, "mul-exact")
		}
	case 3:
		pan := vr.Catch(func() { r = x.Div(k) })
		vr.Assert(pan == vr.Or(xb.Sign() < 0, k <= 0), "div-guard")
		if !pan {
			vr.Cover("div")
			// floor: k*r <= x < k*(r+1)
			lo := new(big.Int).Mul(&r.i, kb)
			hi := new(big.Int).Add(lo, kb)
			vr.Assert(lo.Cmp(xb) <= 0, "div-floor-lower")
			vr.Assert(xb.Cmp(hi) < 0, "div-floor-upper")
		}
	case 9:
		// division by the small constants the code base actually uses (tenths, node counts):
		// the divisor is concrete, the dividend arbitrary
		kc := []int{1, 10, 7}[vr.Choose(0, 2)]
		pan := vr.Catch(func() { r = x.Div(kc) })
		vr.Assert(pan == (xb.Sign() < 0), "div-const-guard")
		if !pan {
			vr.Cover("div-const")
			lo := new(big.Int).Mul(&r.i, big.NewInt(int64(kc)))
			hi := new(big.Int).Add(lo, big.NewInt(int64(kc)))
			vr.Assert(lo.Cmp(xb) <= 0, "div-const-floor-lower")
			vr.Assert(xb.Cmp(hi) < 0, "div-const-floor-upper")
		}
	case 4:
		var c uint64
		pan := vr.Catch(func() { c = x.Count(y) })
		if !pan {
			vr.Cover("count")
			vr.Assert(xb.Sign() > 0, "count-x-positive")
			vr.Assert(yb.Sign() > 0, "count-y-positive")
			vr.Assert(xb.Cmp(yb) >= 0, "count-x-ge-y")
			cb := new(big.Int).SetUint64(c)
			lo := new(big.Int).Mul(cb, yb)
			hi := new(big.Int).Add(lo, yb)
			vr.Assert(lo.Cmp(xb) <= 0, "count-floor-lower")
			vr.Assert(xb.Cmp(hi) < 0, "count-floor-upper")
		} else {
			// panics exactly when a guard fails or the quotient does not fit uint64
			lim := new(big.Int).Lsh(big.NewInt(1), 64)
			fits := new(big.Int).Mul(lim, yb).Cmp(xb) > 0 // x < 2^64*y  <=>  floor(x/y) < 2^64 (y>0)
			bad := vr.Or(vr.Or(xb.Sign() <= 0, yb.Sign() <= 0), xb.Cmp(yb) < 0)
			vr.Assert(vr.Or(bad, !fits), "count-panics-only-when-documented")
			vr.Cover("count-panic")
		}
	case 5:
		vr.Cover("cmp")
		c := x.Cmp(y)
		vr.Assert((c < 0) == (xb.Cmp(yb) < 0), "cmp-lt")
		vr.Assert((c == 0) == (xb.Cmp(yb) == 0), "cmp-eq")
		vr.Assert(c >= -1 && c <= 1, "cmp-range")
		vr.Assert((x.Sign() > 0) == (xb.Sign() > 0), "sign-pos")
		vr.Assert((x.Sign() < 0) == (xb.Sign() < 0), "sign-neg")
	case 6:
		var q RationalNumber
		pan := vr.Catch(func() { q = x.Ration(y) })
		vr.Assert(pan == vr.Or(xb.Sign() < 0, yb.Sign() <= 0), "ration-guard")
		if !pan {
			vr.Cover("ration")
			vr.Assert(q.x.Cmp(xb) == 0, "ration-num")
			vr.Assert(q.y.Cmp(yb) == 0, "ration-den")
			// the ratio holds copies, not aliases of the operands
			x.i.SetInt64(1)
			vr.Assert(q.x.Cmp(xb) == 0, "ration-copies-operand")
		}
	case 7:
		zb := vr.BigAny()
		z := zzInt(zb)
		vr.Assume(xb.Sign() >= 0 && yb.Sign() > 0)
		q := x.Ration(y)
		pan := vr.Catch(func() { r = q.Product(z) })
		vr.Assert(pan == (zb.Sign() < 0), "product-guard")
		if !pan {
			vr.Cover("product")
			// r = floor(z*x/y): y*r <= z*x < y*(r+1)
			zx := new(big.Int).Mul(zb, xb)
			lo := new(big.Int).Mul(yb, &r.i)
			hi := new(big.Int).Add(lo, yb)
			vr.Assert(lo.Cmp(zx) <= 0, "product-floor-lower")
			vr.Assert(zx.Cmp(hi) < 0, "product-floor-upper")
		}
	case 8:
		ub, wb := vr.BigAny(), vr.BigAny()
		vr.Assume(xb.Sign() >= 0 && yb.Sign() > 0 && ub.Sign() >= 0 && wb.Sign() > 0)
		q1, q2 := x.Ration(y), zzInt(ub).Ration(zzInt(wb))
		vr.Cover("ratcmp")
		c := q1.Cmp(q2)
		// x/y ? u/w  <=>  x*w ? u*y   (y,w > 0)
		l, rr := new(big.Int).Mul(xb, wb), new(big.Int).Mul(ub, yb)
		vr.Assert((c < 0) == (l.Cmp(rr) < 0), "ratcmp-lt")
		vr.Assert((c == 0) == (l.Cmp(rr) == 0), "ratcmp-eq")
	}
}

// ZZ_C33_New: NewInteger(x) is x * 10^8 exactly for every uint64.
func ZZ_C33_New() {
	u := vr.U64()
	v := NewInteger(u)
	want := new(big.Int).Mul(new(big.Int).SetUint64(u), big.NewInt(100000000))
	vr.Assert(v.i.Cmp(want) == 0, "newinteger-scale")
	vr.Assert(v.Sign() >= 0, "newinteger-nonneg")
	vr.Cover("new")
}
