package common

import "github.com/MixinNetwork/mixin/crypto"

// The content of a custodian update is C34's subject; the history lookups (C11) only need
// a parse result that is a function of the stored bytes.
func ZZStub_ParseCustodianUpdateNodesExtra(extra []byte, genesis bool) (*CustodianUpdateRequest, error) {
	var custodian Address
	copy(custodian.PublicSpendKey[:], extra[:32])
	copy(custodian.PublicViewKey[:], extra[32:64])
	return &CustodianUpdateRequest{Custodian: &custodian, Signature: &crypto.Signature{}}, nil
}
