package common

import (
	"bytes"

	"github.com/MixinNetwork/mixin/crypto"
	vr "github.com/MixinNetwork/mixin/zzrt"
)

// The previous custodian state is drawn when the code under test asks for it (after the
// update has parsed), so that rejected encodings are not multiplied by ledger states.
type zzCustodianStore struct {
	prev    *CustodianUpdateRequest
	entries [][]byte
	si, sj  int
	prevHas []int
	asked   bool
}

func (s *zzCustodianStore) ReadCustodian(ts uint64) (*CustodianUpdateRequest, error) {
	if s.asked {
		return s.prev, nil
	}
	s.asked = true
	prev := &CustodianUpdateRequest{Custodian: &Address{}}
	vr.Fill(prev.Custodian.PublicSpendKey[:])
	vr.Fill(prev.Custodian.PublicViewKey[:])
	s.prevHas = make([]int, len(s.entries)) // 0 absent, 1 same payee, 2 other payee
	pattern := vr.Choose(0, 2)             // fixed entries previously known: all / none / the first two
	siKind := vr.Choose(0, 2)
	fixedSeen := 0
	for i := range s.entries {
		if i == s.sj {
			continue
		}
		k := 0
		if i == s.si {
			k = siKind
		} else {
			fixedSeen++
			if pattern == 0 || (pattern == 2 && fixedSeen <= 2) {
				k = 1
			}
		}
		s.prevHas[i] = k
		if k == 0 {
			continue
		}
		c, p := zzNodeOf(s.entries[i])
		if k == 2 {
			p.PublicSpendKey[31] ^= 0x01
		}
		prev.Nodes = append(prev.Nodes, &CustodianNode{Custodian: c, Payee: p})
	}
	if vr.Bool() {
		prev = nil
	}
	s.prev = prev
	return prev, nil
}

// zzConcreteNodeExtra: a 353-byte entry with fixed distinct keys derived from tag.
func zzConcreteNodeExtra(tag byte) []byte {
	e := make([]byte, custodianNodeExtraSize)
	e[0] = custodianNodeActionUpdate
	e[1] = tag       // custodian spend key (sort key)
	e[33] = tag + 1  // custodian view key
	e[65] = tag + 2  // payee spend key
	e[97] = tag + 3  // payee view key
	e[129] = tag + 4 // node id
	return e
}

func zzNodeOf(e []byte) (custodian, payee Address) {
	copy(custodian.PublicSpendKey[:], e[1:33])
	copy(custodian.PublicViewKey[:], e[33:65])
	copy(payee.PublicSpendKey[:], e[65:97])
	copy(payee.PublicViewKey[:], e[97:129])
	return
}

func zzVerified(key crypto.Key, msg crypto.Hash, sig crypto.Signature) bool {
	ok := false
	for _, c := range crypto.ZZVerifyLog {
		if c.Agg || len(c.Keys) != 1 {
			continue
		}
		// (no short-circuit operators: one term, no path fork per log entry)
		ok = vr.Or(ok, vr.And(vr.And(c.Keys[0] == key, c.Msg == msg), vr.And(c.Sigs[0] == sig, c.Result)))
	}
	return ok
}

// ZZ_C34: a custodian update of 7 entries (the code's minimum), one (quick) or two (thorough)
// of them arbitrary byte strings at several positions, the others fixed and well formed; arbitrary new
// custodian, approval signature, amount and previous custodian state.
func ZZ_C34() {
	const n = 7
	entries := make([][]byte, n)
	// positions of the two symbolic entries
	var si, sj int
	if vr.Tier() == 0 {
		// quick tier: one arbitrary entry (first, middle or last), six fixed
		sj = -1
		switch vr.Choose(0, 2) {
		case 0:
			si = 0
		case 1:
			si = 3
		default:
			si = 6
		}
	} else {
		switch vr.Choose(0, 3) {
		case 0:
			si, sj = 0, 1
		case 1:
			si, sj = 2, 5
		case 2:
			si, sj = 5, 6
		default:
			si, sj = 0, 6
		}
	}
	tag := byte(0x10)
	for i := range entries {
		if i == si || i == sj {
			entries[i] = vr.Bytes(custodianNodeExtraSize)
			// the two view keys are fixed distinct constants: they are only ever inserted into the
			// uniqueness map, and a symbolic map key forks on aliasing with each of ~25 others
			fixed := zzConcreteNodeExtra(tag + 8)
			copy(entries[i][33:65], fixed[33:65])
			copy(entries[i][97:129], fixed[97:129])
		} else {
			entries[i] = zzConcreteNodeExtra(tag)
		}
		tag += 0x10
	}
	extra := vr.Bytes(64) // the new custodian address
	for _, e := range entries {
		extra = append(extra, e...)
	}
	approval := vr.Bytes(64)
	extra = append(extra, approval...)

	st := &zzCustodianStore{entries: entries, si: si, sj: sj}

	tx := &Transaction{Version: TxVersionHashSignature, Asset: XINAssetId, Extra: extra}
	k := crypto.Key{}
	vr.Fill(k[:])
	ab := vr.BigInt(6) // any amount below 2^48 units (2.8 million XIN)
	amount := ZZIntegerFromBig(ab)
	tx.Outputs = []*Output{{Type: OutputTypeCustodianUpdateNodes, Amount: amount, Keys: []*crypto.Key{&k}, Script: Script{OperatorCmp, OperatorSum, 64}}}
	crypto.ZZVerifyLog = nil
	err := tx.validateCustodianUpdateNodes(st, vr.U64())
	if err != nil {
		vr.Cover("rejected")
		return
	}
	vr.Cover("accepted")
	prev, prevHas := st.prev, st.prevHas
	vr.Assert(st.asked && prev != nil, "needs-a-current-custodian")
	// canonical order and unique keys
	seen := map[crypto.Key]bool{}
	for i, e := range entries {
		vr.Assert(e[0] == custodianNodeActionUpdate, "entry-action-byte")
		c, p := zzNodeOf(e)
		if i > 0 {
			pc, _ := zzNodeOf(entries[i-1])
			vr.Assert(bytes.Compare(pc.PublicSpendKey[:], c.PublicSpendKey[:]) < 0, "entries-strictly-sorted-by-custodian-key")
		}
		vr.Assert(!seen[c.PublicSpendKey] && !seen[p.PublicSpendKey] && c.PublicSpendKey != p.PublicSpendKey, "custodian-and-payee-spend-keys-unique")
		seen[c.PublicSpendKey], seen[p.PublicSpendKey] = true, true
		seen[c.PublicViewKey], seen[p.PublicViewKey] = true, true
		// both signatures of the entry verified over its first 161 bytes
		eh := crypto.Blake3Hash(e[:161])
		var ps, cs crypto.Signature
		copy(ps[:], e[225:289])
		copy(cs[:], e[289:353])
		vr.Assert(zzVerified(p.PublicSpendKey, eh, ps), "payee-signature-verified")
		vr.Assert(zzVerified(c.PublicSpendKey, eh, cs), "custodian-signature-verified")
	}
	// approval by the current custodian over everything but the approval itself
	var as crypto.Signature
	copy(as[:], approval)
	vr.Assert(zzVerified(prev.Custodian.PublicSpendKey, crypto.Blake3Hash(extra[:len(extra)-64]), as), "approved-by-the-current-custodian")
	// price: 100 per new entry, 1 per changed payee
	price := 0
	for i := range entries {
		switch {
		case i == sj:
			// the second symbolic entry is new unless its custodian address equals a previous one
			c, p := zzNodeOf(entries[i])
			found, same := false, false
			for _, pn := range prev.Nodes {
				if pn.Custodian.PublicSpendKey == c.PublicSpendKey && pn.Custodian.PublicViewKey == c.PublicViewKey {
					found = true
					same = pn.Payee.PublicSpendKey == p.PublicSpendKey && pn.Payee.PublicViewKey == p.PublicViewKey
				}
			}
			if !found {
				price += 100
			} else if !same {
				price += 1
			}
		case prevHas[i] == 0:
			price += 100
			if i == si {
				// unless the symbolic entry happens to repeat another previous custodian address: excluded by key uniqueness above
			}
		case prevHas[i] == 2:
			price += 1
		}
	}
	vr.Assert(amount.Cmp(NewInteger(uint64(price))) >= 0, "pays-at-least-the-price-of-new-and-changed-entries")
	// parsing returns exactly the entries of the encoding
	req, perr := ParseCustodianUpdateNodesExtra(extra, false)
	vr.Assert(perr == nil && len(req.Nodes) == n, "accepted-extra-parses")
	for i, nd := range req.Nodes {
		c, p := zzNodeOf(entries[i])
		vr.Assert(nd.Custodian == c && nd.Payee == p && bytes.Equal(nd.Extra, entries[i]), "parsed-entries-are-the-encoded-ones-in-order")
	}
	vr.Assert(bytes.Equal(req.Custodian.PublicSpendKey[:], extra[:32]) && bytes.Equal(req.Custodian.PublicViewKey[:], extra[32:64]), "parsed-custodian-is-the-encoded-one")
}
