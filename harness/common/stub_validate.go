package common

import (
	"errors"

	"github.com/MixinNetwork/mixin/crypto"
	vr "github.com/MixinNetwork/mixin/zzrt"
)

// The payload bytes are not the subject here (C06): a short opaque payload stands for them.
func ZZStub_VersionedTransaction_PayloadMarshal(ver *VersionedTransaction) []byte {
	if len(ver.pmbytes) == 0 {
		ver.pmbytes = vr.Bytes(8)
	}
	return ver.pmbytes
}

// The payload hash is an arbitrary non-zero constant of the transaction object.
func ZZStub_VersionedTransaction_PayloadHash(ver *VersionedTransaction) crypto.Hash {
	if !ver.hash.HasValue() {
		vr.Fill(ver.hash[:])
		vr.Assume(ver.hash.HasValue())
	}
	return ver.hash
}

// Custodian extra parsing is decided by C34; here it is an arbitrary (request | error).
func ZZStub_ParseCustodianUpdateNodesExtra(extra []byte, genesis bool) (*CustodianUpdateRequest, error) {
	if len(extra) < 64+custodianNodeExtraSize*custodianNodesMinimumCount+64 || vr.Bool() {
		return nil, errors.New("stub: custodian extra rejected")
	}
	req := &CustodianUpdateRequest{Custodian: &Address{}, Signature: &crypto.Signature{}}
	vr.Fill(req.Custodian.PublicSpendKey[:])
	vr.Fill(req.Custodian.PublicViewKey[:])
	vr.Fill(req.Signature[:])
	for n := vr.Choose(0, 1) * 7; n > 0; n-- {
		cn := &CustodianNode{}
		vr.Fill(cn.Custodian.PublicSpendKey[:])
		vr.Fill(cn.Payee.PublicSpendKey[:])
		req.Nodes = append(req.Nodes, cn)
	}
	return req, nil
}
