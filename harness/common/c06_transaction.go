package common

import (
	"bytes"

	"github.com/MixinNetwork/mixin/crypto"
	vr "github.com/MixinNetwork/mixin/zzrt"
)

// zzTxPost: decoder post-conditions D1-D7 (relied upon by the C01/C05 harnesses).
func zzTxPost(tx *SignedTransaction) {
	vr.Assert(tx.Version == TxVersionHashSignature, "D1-version")
	vr.Assert(len(tx.Inputs) <= SliceCountLimit, "D2-inputs-count")
	vr.Assert(len(tx.Outputs) <= SliceCountLimit, "D2-outputs-count")
	vr.Assert(len(tx.References) <= SliceCountLimit, "D2-references-count")
	vr.Assert(len(tx.Extra) <= ExtraSizeStorageCapacity, "D7-extra-size")
	for _, in := range tx.Inputs {
		vr.Assert(in != nil, "D5-input-non-nil")
		vr.Assert(in.Index <= InputIndexLimit, "D3-input-index")
		vr.Assert((in.Genesis == nil) == (len(in.Genesis) == 0), "D5-genesis-nil-iff-empty")
		if in.Deposit != nil {
			vr.Assert(in.Deposit.Amount.Sign() >= 0, "D4-deposit-amount-nonneg")
		}
		if in.Mint != nil {
			vr.Assert(in.Mint.Amount.Sign() >= 0, "D4-mint-amount-nonneg")
		}
	}
	for _, o := range tx.Outputs {
		vr.Assert(o != nil, "D5-output-non-nil")
		vr.Assert(o.Amount.Sign() >= 0, "D4-output-amount-nonneg")
		vr.Assert(len(o.Keys) <= SliceCountLimit, "D2-keys-count")
		for _, k := range o.Keys {
			vr.Assert(k != nil, "D5-key-non-nil")
		}
	}
	for _, sm := range tx.SignaturesMap {
		vr.Assert(sm != nil, "D5-sigmap-non-nil")
		for _, sg := range sm {
			vr.Assert(sg != nil, "D5-signature-non-nil")
		}
	}
	if as := tx.AggregatedSignature; as != nil {
		prev := -1
		for _, s := range as.Signers {
			vr.Assert(s > prev, "D6-signers-increasing")
			vr.Assert(s <= MaximumEncodingInt, "D6-signers-range")
			prev = s
		}
		vr.Assert(tx.SignaturesMap == nil, "D6-agg-excludes-maps")
	}
}

// ZZ_C06_A: canonicity over ALL byte strings of length L: if the decoder accepts the
// buffer then re-encoding the result gives back exactly the buffer.
func ZZ_C06_A() {
	maxL, mcap := 96, 3
	if vr.Tier() > 0 {
		maxL, mcap = 136, 136
	}
	L := vr.Choose(0, maxL)
	vr.MakeCap(mcap)
	b := vr.Bytes(L)
	orig := append([]byte{}, b...)
	ver, err := UnmarshalVersionedTransaction(b)
	if err != nil {
		vr.Cover("rejected")
		return
	}
	vr.Cover("accepted")
	vr.Assert(ver != nil, "non-nil")
	zzTxPost(&ver.SignedTransaction)
	enc := ver.marshal()
	vr.Assert(bytes.Equal(enc, orig), "accepted-bytes-are-the-canonical-encoding")
	if len(ver.Inputs) > 0 {
		vr.Cover("has-input")
	}
	if len(ver.Outputs) > 0 {
		vr.Cover("has-output")
	}
}

func zzAmount() Integer {
	var v Integer
	v.i.SetBytes(vr.Bytes(3)) // any amount < 2^24, including leading zero bytes
	return v
}

func zzStr(n int) string { return string(vr.Bytes(n)) }

// zzShapeTx builds a transaction object of a shape selected by two feature numbers
// (0 = none); all field contents are symbolic.
func zzShapeTx(f1, f2 int) *SignedTransaction {
	has := func(f int) bool { return f1 == f || f2 == f }
	tx := &SignedTransaction{}
	tx.Version = TxVersionHashSignature
	vr.Fill(tx.Asset[:])
	nIn := 1
	if has(1) {
		nIn = 2
	}
	for i := 0; i < nIn; i++ {
		in := &Input{}
		vr.Fill(in.Hash[:])
		idx := vr.U16()
		vr.Assume(idx <= InputIndexLimit)
		in.Index = uint(idx)
		if i == 0 && has(2) {
			in.Genesis = vr.Bytes(vr.Choose(1, 2))
		}
		if i == 0 && has(3) {
			d := &DepositData{AssetKey: zzStr(vr.Choose(0, 2)), Transaction: zzStr(vr.Choose(0, 2)), Index: vr.U64(), Amount: zzAmount()}
			vr.Fill(d.Chain[:])
			in.Deposit = d
		}
		if i == 0 && has(4) {
			in.Mint = &MintData{Group: zzStr(vr.Choose(0, 2)), Batch: vr.U64(), Amount: zzAmount()}
		}
		tx.Inputs = append(tx.Inputs, in)
	}
	nOut := 1
	if has(5) {
		nOut = 2
	}
	for i := 0; i < nOut; i++ {
		o := &Output{Type: vr.U8(), Amount: zzAmount()}
		vr.Fill(o.Mask[:])
		o.Keys = []*crypto.Key{}
		if i == 0 && has(6) {
			for k := vr.Choose(1, 2); k > 0; k-- {
				key := new(crypto.Key)
				vr.Fill(key[:])
				o.Keys = append(o.Keys, key)
			}
		}
		if i == 0 && has(7) {
			o.Script = Script(vr.Bytes(vr.Choose(1, 3)))
		}
		if i == 0 && has(8) {
			o.Withdrawal = &WithdrawalData{Address: zzStr(vr.Choose(0, 2)), Tag: zzStr(vr.Choose(0, 2))}
		}
		tx.Outputs = append(tx.Outputs, o)
	}
	if has(9) {
		for k := vr.Choose(1, 2); k > 0; k-- {
			var h crypto.Hash
			vr.Fill(h[:])
			tx.References = append(tx.References, h)
		}
	}
	if has(10) {
		tx.Extra = vr.Bytes(vr.Choose(1, 3))
	}
	if has(11) {
		for m := vr.Choose(1, 2); m > 0; m-- {
			sm := map[uint16]*crypto.Signature{}
			for e := vr.Choose(0, 2); e > 0; e-- {
				var sg crypto.Signature
				vr.Fill(sg[:])
				k := vr.U16()
				_, dup := sm[k]
				vr.Assume(!dup)
				sm[k] = &sg
			}
			tx.SignaturesMap = append(tx.SignaturesMap, sm)
		}
	}
	if has(12) && !has(11) {
		as := &AggregatedSignature{}
		vr.Fill(as.Signature[:])
		prev := -1
		for k := vr.Choose(0, 2); k > 0; k-- {
			s := int(vr.U8())
			vr.Assume(s > prev && s <= 40) // both mask forms: ordinary (max < 16*n) and sparse
			as.Signers = append(as.Signers, s)
			prev = s
		}
		tx.AggregatedSignature = as
	}
	return tx
}

func zzFeatures() (int, int) {
	if vr.Tier() == 0 { // quick: the base shape and every single feature; thorough: every pair too
		return 0, vr.Choose(0, 12)
	}
	f1 := vr.Choose(0, 12)
	f2 := vr.Choose(f1, 12)
	if f1 == f2 && f1 != 0 {
		f1 = 0
	}
	return f1, f2
}

// zzTxSame asserts field-wise equality of two transactions.
func zzTxSame(a, b *SignedTransaction, withSigs bool, pfx string) {
	vr.Assert(a.Version == b.Version, pfx+"version")
	vr.Assert(a.Asset == b.Asset, pfx+"asset")
	vr.Assert(len(a.Inputs) == len(b.Inputs), pfx+"inputs-len")
	if len(a.Inputs) == len(b.Inputs) {
		for i := range a.Inputs {
			x, y := a.Inputs[i], b.Inputs[i]
			vr.Assert(x.Hash == y.Hash, pfx+"input-hash")
			vr.Assert(x.Index == y.Index, pfx+"input-index")
			vr.Assert(bytes.Equal(x.Genesis, y.Genesis), pfx+"input-genesis")
			vr.Assert((x.Deposit == nil) == (y.Deposit == nil), pfx+"deposit-presence")
			if x.Deposit != nil && y.Deposit != nil {
				vr.Assert(x.Deposit.Chain == y.Deposit.Chain, pfx+"deposit-chain")
				vr.Assert(x.Deposit.AssetKey == y.Deposit.AssetKey, pfx+"deposit-assetkey")
				vr.Assert(x.Deposit.Transaction == y.Deposit.Transaction, pfx+"deposit-transaction")
				vr.Assert(x.Deposit.Index == y.Deposit.Index, pfx+"deposit-index")
				vr.Assert(x.Deposit.Amount.Cmp(y.Deposit.Amount) == 0, pfx+"deposit-amount")
			}
			vr.Assert((x.Mint == nil) == (y.Mint == nil), pfx+"mint-presence")
			if x.Mint != nil && y.Mint != nil {
				vr.Assert(x.Mint.Group == y.Mint.Group, pfx+"mint-group")
				vr.Assert(x.Mint.Batch == y.Mint.Batch, pfx+"mint-batch")
				vr.Assert(x.Mint.Amount.Cmp(y.Mint.Amount) == 0, pfx+"mint-amount")
			}
		}
	}
	vr.Assert(len(a.Outputs) == len(b.Outputs), pfx+"outputs-len")
	if len(a.Outputs) == len(b.Outputs) {
		for i := range a.Outputs {
			x, y := a.Outputs[i], b.Outputs[i]
			vr.Assert(x.Type == y.Type, pfx+"output-type")
			vr.Assert(x.Amount.Cmp(y.Amount) == 0, pfx+"output-amount")
			vr.Assert(x.Mask == y.Mask, pfx+"output-mask")
			vr.Assert(bytes.Equal(x.Script, y.Script), pfx+"output-script")
			vr.Assert(len(x.Keys) == len(y.Keys), pfx+"output-keys-len")
			if len(x.Keys) == len(y.Keys) {
				for j := range x.Keys {
					vr.Assert(*x.Keys[j] == *y.Keys[j], pfx+"output-key")
				}
			}
			vr.Assert((x.Withdrawal == nil) == (y.Withdrawal == nil), pfx+"withdrawal-presence")
			if x.Withdrawal != nil && y.Withdrawal != nil {
				vr.Assert(x.Withdrawal.Address == y.Withdrawal.Address, pfx+"withdrawal-address")
				vr.Assert(x.Withdrawal.Tag == y.Withdrawal.Tag, pfx+"withdrawal-tag")
			}
		}
	}
	vr.Assert(len(a.References) == len(b.References), pfx+"references-len")
	if len(a.References) == len(b.References) {
		for i := range a.References {
			vr.Assert(a.References[i] == b.References[i], pfx+"reference")
		}
	}
	vr.Assert(bytes.Equal(a.Extra, b.Extra), pfx+"extra")
	if !withSigs {
		return
	}
	vr.Assert(len(a.SignaturesMap) == len(b.SignaturesMap), pfx+"sigmaps-len")
	if len(a.SignaturesMap) == len(b.SignaturesMap) {
		for i := range a.SignaturesMap {
			x, y := a.SignaturesMap[i], b.SignaturesMap[i]
			vr.Assert(len(x) == len(y), pfx+"sigmap-size")
			for k, sx := range x {
				sy, ok := y[k]
				vr.Assert(ok, pfx+"sigmap-index")
				if ok {
					vr.Assert(*sx == *sy, pfx+"sigmap-signature")
				}
			}
		}
	}
	vr.Assert((a.AggregatedSignature == nil) == (b.AggregatedSignature == nil), pfx+"agg-presence")
	if a.AggregatedSignature != nil && b.AggregatedSignature != nil {
		x, y := a.AggregatedSignature, b.AggregatedSignature
		vr.Assert(x.Signature == y.Signature, pfx+"agg-signature")
		vr.Assert(len(x.Signers) == len(y.Signers), pfx+"agg-signers-len")
		if len(x.Signers) == len(y.Signers) {
			for i := range x.Signers {
				vr.Assert(x.Signers[i] == y.Signers[i], pfx+"agg-signer")
			}
		}
	}
}

// ZZ_C06_C: encode then decode returns an equal transaction, for every shape with up
// to two features switched on and all contents symbolic.
func ZZ_C06_C() {
	f1, f2 := zzFeatures()
	tx := zzShapeTx(f1, f2)
	ver := tx.AsVersioned()
	enc := ver.marshal()
	dec, err := UnmarshalVersionedTransaction(append([]byte{}, enc...))
	vr.Assert(err == nil, "encoded-transaction-decodes")
	if err != nil {
		return
	}
	vr.Cover("roundtrip")
	zzTxSame(tx, &dec.SignedTransaction, true, "rt-")
	zzTxPost(&dec.SignedTransaction)
	vr.Assert(bytes.Equal(dec.marshal(), enc), "re-encode-equal")
}

// ZZ_C06_D: the payload encoding (what the transaction hash is computed from) contains
// every payload field and no authorization data; it is injective in the payload.
func ZZ_C06_D() {
	f1, f2 := zzFeatures()
	tx := zzShapeTx(f1, f2)
	ver := tx.AsVersioned()
	p1 := append([]byte{}, ver.payloadMarshal()...)
	// same payload, different authorization data
	stripped := &VersionedTransaction{SignedTransaction: SignedTransaction{Transaction: tx.Transaction}}
	vr.Assert(bytes.Equal(p1, stripped.payloadMarshal()), "payload-ignores-signatures")
	other := &VersionedTransaction{SignedTransaction: SignedTransaction{Transaction: tx.Transaction}}
	var sg crypto.Signature
	vr.Fill(sg[:])
	other.SignaturesMap = []map[uint16]*crypto.Signature{{vr.U16(): &sg}}
	vr.Assert(bytes.Equal(p1, other.payloadMarshal()), "payload-ignores-other-signatures")
	h1 := ver.PayloadHash()
	vr.Assert(h1 == crypto.Blake3Hash(p1), "hash-is-blake3-of-payload")
	vr.Assert(other.PayloadHash() == h1, "hash-ignores-signatures")
	vr.Assert(bytes.Equal(ver.PayloadMarshal(), p1), "memo-holds-payload-bytes")
	vr.Assert(ver.PayloadHash() == h1, "memo-hash-stable")
	// the payload decodes back to the payload fields (so it contains every one of them)
	dec, err := UnmarshalVersionedTransaction(append([]byte{}, p1...))
	vr.Assert(err == nil, "payload-decodes")
	if err != nil {
		return
	}
	zzTxSame(tx, &dec.SignedTransaction, false, "pl-")
	vr.Assert(dec.AggregatedSignature == nil && dec.SignaturesMap == nil, "payload-carries-no-authorization")
	vr.Cover("payload")
}

// ZZ_C06_E: injectivity: two payload objects with equal payload encodings are equal.
// (Follows from C: decode(payloadMarshal(tx)) = tx is a left inverse; checked directly
// here for pairs of single-feature shapes.)
func ZZ_C06_E() {
	fa, fb := vr.Choose(0, 10), vr.Choose(0, 10)
	a, b := zzShapeTx(0, fa), zzShapeTx(0, fb)
	pa := a.AsVersioned().payloadMarshal()
	pb := b.AsVersioned().payloadMarshal()
	if !bytes.Equal(pa, pb) {
		vr.Cover("different")
		return
	}
	vr.Cover("equal-encodings")
	zzTxSame(a, b, false, "inj-")
}
