package common

import (
	"errors"

	"github.com/MixinNetwork/mixin/crypto"
	vr "github.com/MixinNetwork/mixin/zzrt"
)

// Nested decoders are arbitrary (value | error) here; their own totality and
// canonicity are properties C06 / C07.
func ZZStub_UnmarshalVersionedTransaction(val []byte) (*VersionedTransaction, error) {
	if vr.Bool() {
		return nil, errors.New("stub: transaction rejected")
	}
	return &VersionedTransaction{}, nil
}

func ZZStub_UnmarshalVersionedSnapshot(b []byte) (*SnapshotWithTopologicalOrder, error) {
	if vr.Bool() {
		return nil, errors.New("stub: snapshot rejected")
	}
	s := &Snapshot{Version: SnapshotVersionCommonEncoding}
	if vr.Bool() {
		s.Signature = &crypto.CosiSignature{Mask: 1}
	}
	return &SnapshotWithTopologicalOrder{Snapshot: s}, nil
}
