package common

import "github.com/MixinNetwork/mixin/crypto"

// Output key derivation (ghost keys) is C32's subject: a mint output is recorded with its
// type, script and amount and a placeholder key.
func ZZStub_Transaction_AddOutputWithType(tx *Transaction, ot uint8, accounts []*Address, s Script, amount Integer, seed []byte) {
	out := &Output{Type: ot, Amount: amount, Script: s, Keys: []*crypto.Key{}}
	for _, a := range accounts {
		k := a.PublicSpendKey
		out.Keys = append(out.Keys, &k)
	}
	tx.Outputs = append(tx.Outputs, out)
}

func ZZStub_NewAddressFromSeedInternalVanish(seed []byte) Address {
	var a Address
	a.PublicSpendKey[0] = 0x99
	a.PublicViewKey[0] = 0x98
	return a
}
