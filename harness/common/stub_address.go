package common

import "encoding/hex"

// Address text is an injective rendering of the two public keys.
func ZZStub_Address_String(a Address) string {
	return "XIN" + hex.EncodeToString(a.PublicSpendKey[:]) + hex.EncodeToString(a.PublicViewKey[:])
}

