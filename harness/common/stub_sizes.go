package common

import (
	"github.com/MixinNetwork/mixin/crypto"
	vr "github.com/MixinNetwork/mixin/zzrt"
)

// Size model for the batching check (C31): a transaction object carries an
// arbitrary payload size and signed size within the admission facts; validation
// (C01/C05) and encoding (C06) themselves are not the subject.
type ZZSizes struct{ Payload, Signed int }

var ZZSizeOf = map[*VersionedTransaction]*ZZSizes{}

func ZZStub_VersionedTransaction_Validate(ver *VersionedTransaction, store DataStore, snapTime uint64, fork bool) error {
	ver.validatedSize = ZZSizeOf[ver].Payload
	return nil
}

func ZZStub_VersionedTransaction_Marshal(ver *VersionedTransaction) []byte {
	return vr.SizedBlob(ZZSizeOf[ver].Signed)
}

func ZZStub_VersionedTransaction_PayloadHash(ver *VersionedTransaction) crypto.Hash {
	if !ver.hash.HasValue() {
		vr.Fill(ver.hash[:])
		vr.Assume(ver.hash.HasValue())
	}
	return ver.hash
}
