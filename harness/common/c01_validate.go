package common

import (
	"errors"
	"math/big"

	"github.com/MixinNetwork/mixin/crypto"
	vr "github.com/MixinNetwork/mixin/zzrt"
)

// ---------------------------------------------------------------------------
// Symbolic ledger: every DataStore answer is arbitrary within the ledger
// representation invariants L1-L8 (DESIGN.md, C05). Answers are memoised so that
// equal questions get equal answers.

type zzUtxoEntry struct {
	hash  crypto.Hash
	index uint
	kind  int // 0 error, 1 missing, 2 present
	utxo  *UTXOWithLock
	amt   *big.Int
}

type zzTxEntry struct {
	hash crypto.Hash
	kind int
	tx   *VersionedTransaction
	snap string
}

type zzLedger struct {
	asset   crypto.Hash
	strict  bool // C01/C02: strict invariants; C05: weak ones
	narrow  bool
	manyKeys bool
	utxos   []*zzUtxoEntry
	txs     []*zzTxEntry
	ghosts  [][]*crypto.Key
	ghostTx []crypto.Hash
	nodes   []*Node
	nodesOk bool
	// L5/L6: hashes that name stored transactions, with the number of outputs they must at least have
	mustExist []zzMust
}

type zzMust struct {
	hash crypto.Hash
	outs int
}

var errZZ = errors.New("stub: store error")

func zzPositive() (*big.Int, Integer) {
	b := vr.BigInt(0)
	vr.Assume(b.Sign() > 0)
	var v Integer
	v.i.Set(b)
	return b, v
}

func zzNonNeg() (*big.Int, Integer) {
	b := vr.BigInt(0)
	var v Integer
	v.i.Set(b)
	return b, v
}

var zzUtxoTypes = []uint8{OutputTypeScript, OutputTypeNodePledge, OutputTypeNodeCancel, OutputTypeNodeAccept,
	OutputTypeNodeRemove, OutputTypeWithdrawalClaim, OutputTypeCustodianUpdateNodes}

func (l *zzLedger) ReadUTXOLock(hash crypto.Hash, index uint) (*UTXOWithLock, error) {
	for _, e := range l.utxos {
		if e.hash == hash && e.index == index {
			if e.kind == 0 {
				return nil, errZZ
			}
			return e.utxo, nil
		}
	}
	e := &zzUtxoEntry{hash: hash, index: index}
	narrow := l.narrow && len(l.utxos) > 0 // quick tier: the second distinct output is always a present script output
	if narrow {
		e.kind = 2
	} else if l.narrow {
		e.kind = vr.Choose(1, 2)
	} else {
		e.kind = vr.Choose(0, 2)
	}
	l.utxos = append(l.utxos, e)
	switch e.kind {
	case 0:
		return nil, errZZ
	case 1:
		return nil, nil
	}
	u := &UTXOWithLock{}
	u.Hash, u.Index = hash, index
	// L5: an output exists only as output #index of a stored transaction (bound: index <= 1)
	vr.Assume(index <= 1)
	l.mustExist = append(l.mustExist, zzMust{hash, int(index) + 1})
	u.Type = vr.U8() // L2: one of the types UnspentOutputs materialises
	okType := false
	for _, t := range zzUtxoTypes {
		okType = vr.Or(okType, u.Type == t)
	}
	vr.Assume(okType)
	if narrow {
		vr.Assume(u.Type == OutputTypeScript)
	}
	e.amt, u.Amount = zzPositive()                          // L1
	if u.Type == OutputTypeScript || u.Type == OutputTypeNodeRemove || u.Type == OutputTypeCustodianUpdateNodes {
		t := vr.U8()
		vr.Assume(t <= Operator64)
		u.Script = Script{OperatorCmp, OperatorSum, t} // L4
		minKeys, maxKeys := 1, 1
		if vr.Tier() > 0 || l.manyKeys {
			minKeys, maxKeys = 0, 2
		}
		for n := vr.Choose(minKeys, maxKeys); n > 0; n-- { // L3
			k := new(crypto.Key)
			vr.Fill(k[:])
			u.Keys = append(u.Keys, k)
		}
		vr.Fill(u.Mask[:])
	}
	vr.Fill(u.Asset[:])
	if !l.narrow {
		vr.Fill(u.LockHash[:]) // quick tier: outputs are unlocked
	}
	e.utxo = u
	return u, nil
}

func (l *zzLedger) storedTx(hash crypto.Hash, need int) *VersionedTransaction {
	// a stored transaction: accepted once, so it has >=1 input and output (L5)
	tx := &VersionedTransaction{}
	tx.Version = TxVersionHashSignature
	vr.Fill(tx.Asset[:])
	in := &Input{}
	vr.Fill(in.Hash[:])
	in.Index = uint(vr.Choose(0, 1))
	tx.Inputs = []*Input{in}
	l.mustExist = append(l.mustExist, zzMust{in.Hash, int(in.Index) + 1}) // L5: its input resolved once
	tmpl := vr.Choose(0, 2)
	if need >= 2 {
		tmpl = 2
	} // 0: one key-less output; 1: one output with a key / withdrawal data; 2: two outputs
	nOut := 1
	if tmpl == 2 {
		nOut = 2
	}
	for n := 0; n < nOut; n++ {
		o := &Output{Type: vr.U8()}
		_, o.Amount = zzPositive()
		vr.Fill(o.Mask[:])
		if tmpl == 1 || n == 1 {
			k := new(crypto.Key)
			vr.Fill(k[:])
			o.Keys = []*crypto.Key{k}
		}
		if tmpl == 1 {
			o.Withdrawal = &WithdrawalData{Address: "addr"}
		}
		tx.Outputs = append(tx.Outputs, o)
	}
	tx.Extra = vr.Bytes([]int{0, 64}[vr.Choose(0, 1)])
	tx.hash = hash // content addressing: stored under its own payload hash
	return tx
}

func (l *zzLedger) ReadTransaction(hash crypto.Hash) (*VersionedTransaction, string, error) {
	for _, e := range l.txs {
		if e.hash == hash {
			if e.kind == 0 {
				return nil, "", errZZ
			}
			return e.tx, e.snap, nil
		}
	}
	need := 0
	for _, m := range l.mustExist {
		if m.hash == hash && m.outs > need {
			need = m.outs
		}
	}
	e := &zzTxEntry{hash: hash}
	if need > 0 {
		e.kind = 3 // L5/L6: named by an output / node record / stored input: stored and finalized
		if vr.Bool() {
			e.kind = 0 // (a read error is always possible)
		}
	} else {
		e.kind = vr.Choose(0, 3)
	}
	l.txs = append(l.txs, e)
	switch e.kind {
	case 0:
		return nil, "", errZZ
	case 1:
		return nil, "", nil
	case 2: // stored, not finalized
		e.tx = l.storedTx(hash, need)
	case 3: // stored and finalized
		e.tx = l.storedTx(hash, need)
		e.snap = "snapshot"
	}
	return e.tx, e.snap, nil
}

func (l *zzLedger) ReadDepositLock(deposit *DepositData) (crypto.Hash, error) {
	var h crypto.Hash
	if vr.Bool() {
		return h, errZZ
	}
	vr.Fill(h[:])
	return h, nil
}

func (l *zzLedger) ReadLastMintDistribution(batch uint64) (*MintDistribution, error) {
	switch vr.Choose(0, 2) {
	case 0:
		return nil, errZZ
	case 1:
		return nil, nil
	}
	d := &MintDistribution{}
	d.Group = mintGroupUniversal
	d.Batch = vr.U64()
	_, d.Amount = zzPositive()
	vr.Fill(d.Transaction[:])
	return d, nil
}

func (l *zzLedger) LockUTXOs(inputs []*Input, tx crypto.Hash, fork bool) error { panic("unused") }
func (l *zzLedger) LockDepositInput(deposit *DepositData, tx crypto.Hash, fork bool) error {
	panic("unused")
}
func (l *zzLedger) LockMintInput(mint *MintData, tx crypto.Hash, fork bool) error { panic("unused") }

func (l *zzLedger) LockGhostKeys(keys []*crypto.Key, tx crypto.Hash, fork bool) error {
	l.ghosts = append(l.ghosts, keys)
	l.ghostTx = append(l.ghostTx, tx)
	if !l.narrow && vr.Bool() {
		return errZZ
	}
	return nil
}

func (l *zzLedger) ReadAllNodes(offset uint64, withState bool) []*Node {
	if l.nodesOk {
		return l.nodes
	}
	l.nodesOk = true
	states := []string{NodeStatePledging, NodeStateAccepted, NodeStateRemoved, NodeStateCancelled}
	for n := vr.Choose(0, 2); n > 0; n-- {
		nd := &Node{State: states[vr.Choose(0, 3)], Timestamp: vr.U64()}
		vr.Fill(nd.Signer.PublicSpendKey[:])
		vr.Fill(nd.Signer.PublicViewKey[:])
		vr.Fill(nd.Payee.PublicSpendKey[:])
		vr.Fill(nd.Payee.PublicViewKey[:])
		vr.Fill(nd.Transaction[:])
		l.mustExist = append(l.mustExist, zzMust{nd.Transaction, 1}) // L6: a node record names a stored transaction
		l.nodes = append(l.nodes, nd)
	}
	return l.nodes
}

func (l *zzLedger) ReadCustodian(ts uint64) (*CustodianUpdateRequest, error) {
	if vr.Bool() {
		return nil, errZZ
	}
	// L7: a custodian exists for every timestamp a snapshot can carry
	req := &CustodianUpdateRequest{Custodian: &Address{}, Signature: &crypto.Signature{}, Timestamp: vr.U64()}
	vr.Fill(req.Custodian.PublicSpendKey[:])
	vr.Fill(req.Custodian.PublicViewKey[:])
	for n := vr.Choose(0, 1); n > 0; n-- {
		cn := &CustodianNode{}
		vr.Fill(cn.Custodian.PublicSpendKey[:])
		vr.Fill(cn.Custodian.PublicViewKey[:])
		vr.Fill(cn.Payee.PublicSpendKey[:])
		vr.Fill(cn.Payee.PublicViewKey[:])
		req.Nodes = append(req.Nodes, cn)
	}
	return req, nil
}

func (l *zzLedger) ReadAssetWithBalance(id crypto.Hash) (*Asset, Integer, error) {
	switch vr.Choose(0, 2) {
	case 0:
		return nil, Zero, errZZ
	case 1:
		return nil, Zero, nil
	}
	a := &Asset{AssetKey: "0xkey"}
	vr.Fill(a.Chain[:])
	_, bal := zzNonNeg() // L8
	return a, bal, nil
}

// ---------------------------------------------------------------------------
// Symbolic transaction object: any value the decoder can produce (D1-D7) within the shape bound.

type zzTxInfo struct {
	outAmts []*big.Int
	depAmt  *big.Int
	mintAmt *big.Int
}

// zzOnlyScript restricts the generated transaction to an ordinary script transfer (ordinary
// inputs, one script output, no extra/references) with every authorization form: C02's quick tier.
var zzOnlyScript bool

func zzValidationTx(wide bool) (*VersionedTransaction, *zzTxInfo) {
	info := &zzTxInfo{}
	ver := &VersionedTransaction{}
	tx := &ver.SignedTransaction
	tx.Version = TxVersionHashSignature
	if vr.Bool() {
		tx.Asset = XINAssetId
	} else {
		vr.Fill(tx.Asset[:])
	}
	maxIn, maxOut := 2, 2
	nIn := vr.Choose(1, maxIn)
	twoPlain := !wide && nIn == 2 // quick: the two-input case is two ordinary inputs, one script output, one signature per input
	for i := 0; i < nIn; i++ {
		in := &Input{}
		vr.Fill(in.Hash[:])
		idx := vr.U16()
		vr.Assume(idx <= InputIndexLimit) // D3
		in.Index = uint(idx)
		kinds := 0
		if i == 0 && !twoPlain {
			kinds = 2
			if wide {
				kinds = 4
			}
		} else if wide {
			kinds = 2
		}
		if zzOnlyScript {
			kinds = 0
		}
		choice := 0
		if !wide && !zzOnlyScript && i == 1 {
			// quick: the second input is ordinary or carries a mint marker (decodable; must not slip
			// through as an ordinary transfer)
			if vr.Bool() {
				choice = 2
			}
		} else {
			choice = vr.Choose(0, kinds)
		}
		switch choice {
		case 1, 4:
			d := &DepositData{AssetKey: "0xkey", Transaction: "txid", Index: vr.U64()}
			vr.Fill(d.Chain[:])
			info.depAmt, d.Amount = zzNonNeg()
			in.Deposit = d
			if vr.Bool() { // decodable: both markers set (classified as a mint)
				in.Mint = &MintData{Group: mintGroupUniversal, Batch: vr.U64()}
				info.mintAmt, in.Mint.Amount = zzNonNeg()
			}
		case 2:
			g := mintGroupUniversal
			if wide && vr.Bool() {
				g = "OTHER"
			}
			in.Mint = &MintData{Group: g, Batch: vr.U64()}
			info.mintAmt, in.Mint.Amount = zzNonNeg()
		case 3:
			in.Genesis = vr.Bytes(1)
		}
		tx.Inputs = append(tx.Inputs, in)
	}
	nOut := 1
	if zzOnlyScript {
	} else if wide || nIn == 1 { // quick: (1 in, 1-2 out) and (2 in, 1 out); thorough: up to 2 x 2
		nOut = vr.Choose(1, maxOut)
	}
	for i := 0; i < nOut; i++ {
		o := &Output{Type: vr.U8()}
		if (i > 0 && !wide) || zzOnlyScript {
			vr.Assume(o.Type == OutputTypeScript) // quick: the change output is an ordinary script output
		}
		var b *big.Int
		b, o.Amount = zzNonNeg() // D4
		info.outAmts = append(info.outAmts, b)
		vr.Fill(o.Mask[:])
		o.Keys = []*crypto.Key{}
		form := 0
		if zzOnlyScript {
		} else if i == 0 && !twoPlain {
			form = vr.Choose(0, 2)
		} else if wide {
			form = vr.Choose(0, 1)
		}
		switch form {
		case 0: // script-like
			o.Script = Script(vr.Bytes(3))
			k := new(crypto.Key)
			vr.Fill(k[:])
			o.Keys = append(o.Keys, k)
			if wide && vr.Bool() {
				k2 := new(crypto.Key)
				vr.Fill(k2[:])
				o.Keys = append(o.Keys, k2)
			}
		case 1: // kernel-like: no script, no keys
		case 2: // withdrawal data
			o.Withdrawal = &WithdrawalData{Address: "addr", Tag: "tag"}
		}
		tx.Outputs = append(tx.Outputs, o)
	}
	var extraKind int
	if zzOnlyScript {
	} else if wide {
		extraKind = vr.Choose(0, 4)
	} else {
		// quick: extra/references only in the combinations some type validator can accept
		switch {
		case tx.Outputs[0].Withdrawal != nil || twoPlain:
			extraKind = 0
		case len(tx.Outputs[0].Script) != 0:
			extraKind = vr.Choose(0, 1)
		default:
			extraKind = []int{1, 3}[vr.Choose(0, 1)]
		}
	}
	switch extraKind {
	case 1:
		tx.Extra = vr.Bytes(64)
	case 2:
		tx.Extra = vr.Bytes(96)
	case 3:
		tx.Extra = vr.Bytes(64)
		var r crypto.Hash
		vr.Fill(r[:])
		tx.References = []crypto.Hash{r}
	case 4:
		if tx.Asset == XINAssetId {
			tx.Extra = vr.Bytes(64 + custodianNodeExtraSize*custodianNodesMinimumCount + 64)
		}
	}
	newSig := func() *crypto.Signature {
		var sg crypto.Signature
		vr.Fill(sg[:])
		return &sg
	}
	sigForms := 4
	if !wide {
		sigForms = 2
	}
	sigForm := 1
	if zzOnlyScript {
		sigForm = vr.Choose(0, 4)
	} else if !twoPlain {
		sigForm = []int{0, 1, 3, 2, 4}[vr.Choose(0, sigForms)]
	} else if vr.Bool() {
		sigForm = 2 // a single signature map although there are two inputs (decodable; C05)
	}
	switch sigForm {
	case 0: // no authorization data at all
	case 1: // one map per input, one entry each (index symbolic)
		for range tx.Inputs {
			tx.SignaturesMap = append(tx.SignaturesMap, map[uint16]*crypto.Signature{vr.U16(): newSig()})
		}
	case 2: // a single map whatever the input count, 0..2 entries
		sm := map[uint16]*crypto.Signature{}
		for e := vr.Choose(0, 2); e > 0; e-- {
			k := vr.U16()
			_, dup := sm[k]
			vr.Assume(!dup)
			sm[k] = newSig()
		}
		tx.SignaturesMap = []map[uint16]*crypto.Signature{sm}
	case 3: // aggregated, 0..2 signers strictly increasing (D6)
		as := &AggregatedSignature{}
		vr.Fill(as.Signature[:])
		prev := -1
		minSigners := 0
		if !wide {
			minSigners = 1
		}
		for k := vr.Choose(minSigners, 2); k > 0; k-- {
			s := int(vr.U16())
			vr.Assume(s > prev)
			as.Signers = append(as.Signers, s)
			prev = s
		}
		tx.AggregatedSignature = as
	case 4: // one map per input with two entries
		for range tx.Inputs {
			a, b := vr.U16(), vr.U16()
			vr.Assume(a != b)
			tx.SignaturesMap = append(tx.SignaturesMap, map[uint16]*crypto.Signature{a: newSig(), b: newSig()})
		}
	}
	return ver, info
}

// ZZ_C01: an accepted transaction conserves value within one asset.
func ZZ_C01() {
	ver, info := zzValidationTx(vr.Tier() > 0)
	l := &zzLedger{asset: ver.Asset, strict: true, narrow: vr.Tier() == 0}
	snapTime, fork := vr.U64(), false
	if vr.Tier() > 0 {
		fork = vr.Bool()
	}
	var err error
	// a panic inside validation is property C05's subject, not a conservation failure
	if vr.Catch(func() { err = ver.Validate(l, snapTime, fork) }) {
		vr.Cover("panicked")
		return
	}
	if err != nil {
		if vr.Replaying() {
			println("ZZ-NOTE rejected:", err.Error())
		}
		vr.Cover("rejected")
		return
	}
	vr.Cover("accepted")
	tx := &ver.SignedTransaction
	inSum := new(big.Int)
	switch tx.TransactionType() {
	case TransactionTypeMint:
		vr.Cover("mint")
		vr.Assert(len(tx.Inputs) == 1, "mint-single-input")
		inSum.Set(info.mintAmt)
	case TransactionTypeDeposit:
		vr.Cover("deposit")
		vr.Assert(len(tx.Inputs) == 1, "deposit-single-input")
		vr.Assert(tx.Inputs[0].Mint == nil, "deposit-input-is-not-also-mint")
		inSum.Set(info.depAmt)
	default:
		for _, in := range tx.Inputs {
			vr.Assert(in.Deposit == nil && in.Mint == nil && len(in.Genesis) == 0, "ordinary-input-form")
			var e *zzUtxoEntry
			for _, c := range l.utxos {
				if c.hash == in.Hash && c.index == in.Index {
					e = c
				}
			}
			vr.Assert(e != nil && e.kind == 2, "input-is-an-existing-output")
			if e == nil || e.kind != 2 {
				return
			}
			vr.Assert(e.utxo.Asset == tx.Asset, "input-asset-is-transaction-asset")
			inSum.Add(inSum, e.amt)
		}
		// no output spent twice inside one transaction
		for i := range tx.Inputs {
			for j := i + 1; j < len(tx.Inputs); j++ {
				vr.Assert(!(tx.Inputs[i].Hash == tx.Inputs[j].Hash && tx.Inputs[i].Index == tx.Inputs[j].Index), "no-duplicate-input")
			}
		}
	}
	outSum := new(big.Int)
	for _, b := range info.outAmts {
		vr.Assert(b.Sign() > 0, "every-output-positive")
		outSum.Add(outSum, b)
	}
	vr.Assert(inSum.Cmp(outSum) == 0, "inputs-equal-outputs")
	vr.Assert(inSum.Sign() > 0, "total-positive")
}

// ZZ_C05: validation of any decodable transaction against any ledger state within
// L1-L8 returns a decision; it never panics (engine: every reachable Go panic is a violation).
func ZZ_C05() {
	ver, _ := zzValidationTx(vr.Tier() > 0)
	l := &zzLedger{asset: ver.Asset, narrow: vr.Tier() == 0}
	tx := &ver.SignedTransaction
	// classification labels for known findings (see known_findings.json)
	if tx.TransactionType() == TransactionTypeNodeRemove && tx.AggregatedSignature == nil && len(tx.SignaturesMap) < len(tx.Inputs) {
		vr.Cover("kf:node-remove-fewer-signature-maps-than-inputs")
	}
	err := ver.Validate(l, vr.U64(), vr.Bool())
	if err != nil {
		vr.Cover("rejected")
	} else {
		vr.Cover("accepted")
	}
}

// ZZ_C01_shapes: debugging aid: counts transaction shapes only.
func ZZ_C01_shapes() {
	ver, _ := zzValidationTx(vr.Tier() > 0)
	_ = ver.TransactionType()
	vr.Cover("shape")
}


// ZZ_C02: an accepted transaction authorised every script-typed input with at least
// its threshold of distinct keys FROM THAT OUTPUT'S OWN KEY LIST, and the signature
// verifier was asked about exactly those keys, the given signatures and the payload hash.
func ZZ_C02() {
	zzOnlyScript = vr.Tier() == 0
	ver, _ := zzValidationTx(vr.Tier() > 0)
	l := &zzLedger{asset: ver.Asset, strict: true, narrow: vr.Tier() == 0, manyKeys: true}
	var err error
	if vr.Catch(func() { err = ver.Validate(l, vr.U64(), false) }) {
		return // C05's subject
	}
	if err != nil {
		vr.Cover("rejected")
		return
	}
	vr.Cover("accepted")
	tx := &ver.SignedTransaction
	txType := tx.TransactionType()
	if txType == TransactionTypeMint || txType == TransactionTypeDeposit {
		return // no ordinary inputs: authorised by the type-specific rules
	}
	hash := ver.PayloadHash()
	// resolve inputs
	var utxos []*UTXOWithLock
	scriptInputs := 0
	for _, in := range tx.Inputs {
		var e *zzUtxoEntry
		for _, c := range l.utxos {
			if c.hash == in.Hash && c.index == in.Index {
				e = c
			}
		}
		if e == nil || e.kind != 2 {
			vr.Assert(false, "accepted-input-resolves")
			return
		}
		utxos = append(utxos, e.utxo)
		if e.utxo.Type == OutputTypeScript || e.utxo.Type == OutputTypeNodeRemove {
			scriptInputs++
		}
	}
	if scriptInputs == 0 {
		vr.Cover("no-script-input")
		vr.Assert(txType == TransactionTypeNodeAccept || txType == TransactionTypeNodeRemove || txType == TransactionTypeNodeCancel, "only-node-operations-spend-without-script-inputs")
		return
	}
	// how many keys of each script input were selected by the authorization data
	selected := 0
	{
		off := 0
		for i, u := range utxos {
			if u.Type == OutputTypeScript || u.Type == OutputTypeNodeRemove {
				cnt := 0
				if as := tx.AggregatedSignature; as != nil {
					for _, m := range as.Signers {
						if m >= off && m < off+len(u.Keys) {
							cnt++
						}
					}
				} else if i < len(tx.SignaturesMap) {
					cnt = len(tx.SignaturesMap[i])
				}
				vr.Assert(cnt >= int(u.Script[2]), "selected-keys-meet-the-script-threshold")
				selected += cnt
			}
			off += len(u.Keys)
		}
	}
	if selected == 0 {
		// nothing to verify: every threshold is zero; the code lets only node accept/remove through
		vr.Cover("zero-threshold-only")
		vr.Assert(txType == TransactionTypeNodeAccept || txType == TransactionTypeNodeRemove, "unsigned-spend-only-for-node-accept/remove-with-zero-thresholds")
		return
	}
	// the verifier call that authorised the inputs: the last batch / aggregate entry
	var call *crypto.ZZVerifyCall
	for i := range crypto.ZZVerifyLog {
		c := &crypto.ZZVerifyLog[i]
		if c.Agg == (tx.AggregatedSignature != nil) && (c.Agg || len(c.Keys) > 0) {
			call = c
			if c.Agg || c.Msg == hash {
				break
			}
		}
	}
	if tx.AggregatedSignature != nil {
		vr.Cover("aggregate-form")
		as := tx.AggregatedSignature
		vr.Assert(call != nil && call.Agg, "aggregate-verifier-was-called")
		if call == nil {
			return
		}
		vr.Assert(call.Result, "aggregate-verifier-accepted")
		vr.Assert(call.Msg == hash, "aggregate-message-is-payload-hash")
		vr.Assert(call.Sigs[0] == as.Signature, "aggregate-signature-is-the-transaction's")
		total := 0
		for _, u := range utxos {
			total += len(u.Keys)
		}
		vr.Assert(len(call.Keys) == total, "aggregate-key-vector-is-all-input-keys")
		off := 0
		for _, u := range utxos {
			for j, k := range u.Keys {
				if off+j < len(call.Keys) {
					vr.Assert(call.Keys[off+j] == *k, "aggregate-key-vector-in-input-order")
				}
			}
			if u.Type == OutputTypeScript || u.Type == OutputTypeNodeRemove {
				cnt := 0
				for _, m := range as.Signers {
					if m >= off && m < off+len(u.Keys) {
						cnt++
					}
				}
				vr.Assert(cnt >= int(u.Script[2]), "aggregate-signers-meet-input-threshold")
			}
			off += len(u.Keys)
		}
		vr.Assert(len(call.Signers) == len(as.Signers), "aggregate-signer-list-passed")
		for i, m := range as.Signers {
			vr.Assert(m < total, "aggregate-signer-in-range")
			if i < len(call.Signers) {
				vr.Assert(call.Signers[i] == m, "aggregate-signer-list-passed-unchanged")
			}
		}
		return
	}
	vr.Cover("map-form")
	vr.Assert(len(tx.SignaturesMap) >= len(tx.Inputs) || txType == TransactionTypeNodeRemove, "one-signature-map-per-input")
	vr.Assert(call != nil, "batch-verifier-was-called")
	if call == nil {
		return
	}
	vr.Assert(call.Result, "batch-verifier-accepted")
	vr.Assert(call.Msg == hash, "batch-message-is-payload-hash")
	for i, u := range utxos {
		if u.Type != OutputTypeScript && u.Type != OutputTypeNodeRemove {
			continue
		}
		if i >= len(tx.SignaturesMap) {
			vr.Assert(false, "script-input-has-a-signature-map")
			return
		}
		sm := tx.SignaturesMap[i]
		vr.Assert(len(sm) >= int(u.Script[2]), "distinct-signed-keys-meet-threshold")
		for idx, sg := range sm {
			vr.Assert(int(idx) < len(u.Keys), "signature-index-names-a-key-of-this-output")
			if int(idx) >= len(u.Keys) {
				continue
			}
			k := u.Keys[idx]
			asked := false
			for j := range call.Keys {
				asked = vr.Or(asked, vr.And(call.Keys[j] == *k, call.Sigs[j] == *sg))
			}
			vr.Assert(asked, "verifier-asked-about-this-key-and-signature")
		}
	}
}
