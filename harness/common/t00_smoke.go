package common

import (
	vr "github.com/MixinNetwork/mixin/zzrt"
)

// ZZ_T00 smoke test of the engine: decoder helper round trip and Integer arithmetic.
func ZZ_T00() {
	x := vr.U64()
	enc := NewEncoder()
	enc.WriteUint64(x)
	b := enc.Bytes()
	vr.Assert(len(b) == 8, "len8")
	dec := NewDecoder(b)
	y, err := dec.ReadUint64()
	vr.Assert(err == nil, "noerr")
	vr.Assert(x == y, "roundtrip")
	if x > 100 {
		vr.Cover("big")
	} else {
		vr.Cover("small")
	}
	a := NewInteger(3)
	c := a.Add(NewInteger(4))
	vr.Assert(c.Cmp(NewInteger(7)) == 0, "sum")
}
