package crypto

import (
	"crypto/sha3"

	vr "github.com/MixinNetwork/mixin/zzrt"
	"github.com/zeebo/blake3"
)

// Native replay only (added by the replayer, never loaded by the engine): a hash
// application that was uninterpreted on the symbolic path returns the digest the solver's
// model chose for it, so that the native run follows the model; every other application
// is the real hash.
func ZZStub_Blake3Hash(data []byte) Hash {
	if d, ok := vr.HashLookup("blake3", data); ok && len(d) == 32 {
		return Hash(d)
	}
	return Hash(blake3.Sum256(data))
}

func ZZStub_Sha256Hash(data []byte) Hash {
	if d, ok := vr.HashLookup("sha3_256", data); ok && len(d) == 32 {
		return Hash(d)
	}
	return Hash(sha3.Sum256(data))
}
