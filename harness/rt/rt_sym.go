// Package zzrt is the harness runtime. This variant (bodiless declarations) is
// what the symbolic engine loads: every function is an engine intrinsic.
package zzrt

import (
	"math/big"
	"time"

	"github.com/dgraph-io/badger/v4"
)

func Bool() bool
func U8() uint8
func U16() uint16
func U32() uint32
func U64() uint64
func Int() int
func Bytes(n int) []byte
func Fill(p []byte)
func BigInt(maxBytes int) *big.Int
func BigAny() *big.Int
func Choose(lo, hi int) int
func Assume(c bool)
func Assert(c bool, label string)
func Cover(label string)
func Tier() int
func Replaying() bool
func Catch(f func()) bool
func UFBytes(name string, n int, args ...[]byte) []byte
func UFBool(name string, args ...[]byte) bool
func Concrete(x uint64) uint64
func Log(tag string, v any)
func Or(a, b bool) bool
func And(a, b bool) bool
func Implies(a, b bool) bool
func Ite64(c bool, a, b uint64) uint64
func MakeCap(n int)
func NewKV() *badger.DB
func KVConflicts()
func SizedBlob(n int) []byte
func Go(f func())
func Wait()

// ClockNow / ClockNano: the engine's clock (arbitrary non-decreasing instants); used by the
// clock-package stubs so that native replays read the model's instants.
func ClockNow() time.Time
func ClockNano() uint64

// HashLookup is only used by the native replay build (hash stubs).
func HashLookup(name string, data []byte) ([]byte, bool)
