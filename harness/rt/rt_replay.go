// Package zzrt is the harness runtime. This variant replays a solver model
// (VERIF_CEX) natively against the real code.
package zzrt

import (
	"encoding/hex"
	"encoding/json"
	"fmt"
	"math/big"
	"os"
	"runtime/debug"
	"strings"
	"sync"
	"testing"
	"time"

	"github.com/dgraph-io/badger/v4"
)

type val struct {
	Kind  string `json:"kind"`
	Label string `json:"label"`
	Hex   string `json:"hex"`
	Int   string `json:"int"`
	Args  string `json:"args"`
}

type cex struct {
	Values []val `json:"values"`
}

var (
	vals    []val
	pos     int
	failed  []string
	covers  []string
	tier    int
	unreal  bool
	ufs     map[string]string
)

type unrealisable struct{ why string }

func pop(kind string) val {
	if pos >= len(vals) {
		panic(unrealisable{fmt.Sprintf("value stream exhausted at %d (want %s)", pos, kind)})
	}
	v := vals[pos]
	pos++
	if v.Kind != kind {
		panic(unrealisable{fmt.Sprintf("value %d: kind %s, harness asked %s", pos-1, v.Kind, kind)})
	}
	return v
}

func popInt(kind string) *big.Int {
	v := pop(kind)
	n, ok := new(big.Int).SetString(v.Int, 10)
	if !ok {
		panic(unrealisable{"bad int " + v.Int})
	}
	return n
}

func Bool() bool     { return popInt("bool").Sign() != 0 }
func U8() uint8      { return uint8(popInt("u8").Uint64()) }
func U16() uint16    { return uint16(popInt("u16").Uint64()) }
func U32() uint32    { return uint32(popInt("u32").Uint64()) }
func U64() uint64    { return popInt("u64").Uint64() }
func Int() int       { return int(popInt("int").Uint64()) }
func Tier() int      { return tier }
func Replaying() bool { return true }

func Bytes(n int) []byte {
	v := pop("bytes")
	b, err := hex.DecodeString(v.Hex)
	if err != nil || len(b) != n {
		panic(unrealisable{fmt.Sprintf("bytes: want %d got %d", n, len(b))})
	}
	return b
}

func Fill(p []byte) { copy(p, Bytes(len(p))) }

func BigInt(maxBytes int) *big.Int { return popInt("big") }
func BigAny() *big.Int            { return popInt("sbig") }

func Choose(lo, hi int) int {
	v := int(popInt("choose").Int64())
	if v < lo || v > hi {
		panic(unrealisable{"choose out of range"})
	}
	return v
}

func Concrete(x uint64) uint64 { return x }

func Assume(c bool) {
	if !c {
		panic(unrealisable{"assumption false under the model"})
	}
}

func Assert(c bool, label string) {
	if !c {
		failed = append(failed, label)
		fmt.Printf("ZZ-ASSERT-FAIL %s\n", label)
	}
}

func Cover(label string) {
	for _, c := range covers {
		if c == label {
			return
		}
	}
	covers = append(covers, label)
}

func Catch(f func()) (panicked bool) {
	defer func() {
		if r := recover(); r != nil {
			if u, ok := r.(unrealisable); ok {
				panic(u)
			}
			panicked = true
		}
	}()
	f()
	return false
}

// UFBytes looks the application up by (function, argument bytes): the order in which
// the code under test asks is not fixed (Go map iteration), the answers are.
func UFBytes(name string, n int, args ...[]byte) []byte {
	var ab []byte
	for _, a := range args {
		ab = append(ab, byte(len(a)))
		ab = append(ab, a...)
	}
	key := name + ":" + hex.EncodeToString(ab)
	h, ok := ufMemo[key]
	if !ok {
		h, ok = ufs[key]
		if !ok {
			// The arguments differ from the model's (typically because they contain a real hash
			// where the engine had an uninterpreted one): answer with the model's value for the
			// same-numbered distinct application of this function, and stay functional afterwards.
			if seq := ufSeq[name]; ufCount[name] < len(seq) {
				h, ok = seq[ufCount[name]], true
			}
		}
		if !ok {
			// an application the symbolic path never made: the model says nothing about it
			panic(unrealisable{fmt.Sprintf("uf %s applied to arguments the model does not define", name)})
		}
		ufCount[name]++
		ufMemo[key] = h
	}
	b, err := hex.DecodeString(h)
	if err != nil || len(b) != n {
		panic(unrealisable{fmt.Sprintf("uf %s: want %d bytes got %d", name, n, len(b))})
	}
	return b
}

func UFBool(name string, args ...[]byte) bool {
	return UFBytes(name, 1, args...)[0] != 0
}

func Log(tag string, v any) {}
func MakeCap(n int)         {}

func Or(a, b bool) bool      { return a || b }
func And(a, b bool) bool     { return a && b }
func Implies(a, b bool) bool { return !a || b }
func Ite64(c bool, a, b uint64) uint64 {
	if c {
		return a
	}
	return b
}

// RunReplay is called by the generated test driver.
func RunReplay(t *testing.T, entries map[string]func()) {
	path := os.Getenv("VERIF_CEX")
	entry := os.Getenv("VERIF_ENTRY")
	fmt.Sscan(os.Getenv("VERIF_TIER_N"), &tier)
	raw, err := os.ReadFile(path)
	if err != nil {
		t.Fatalf("ZZ-REPLAY-ERROR cannot read %s: %v", path, err)
	}
	var c cex
	if err := json.Unmarshal(raw, &c); err != nil {
		t.Fatalf("ZZ-REPLAY-ERROR bad json: %v", err)
	}
	ufs = map[string]string{}
	ufMemo, ufSeq, ufCount = map[string]string{}, map[string][]string{}, map[string]int{}
	for _, v := range c.Values {
		if v.Kind == "uf" {
			if _, dup := ufs[v.Label+":"+v.Args]; !dup {
				ufSeq[v.Label] = append(ufSeq[v.Label], v.Hex)
			}
			ufs[v.Label+":"+v.Args] = v.Hex
		} else if v.Kind == "clock" {
			clocks = append(clocks, v)
		} else if v.Kind == "sched" || (v.Kind == "choose" && v.Label == "cache") {
			// the engine's model of time.Now(): the native run reads the real clock
		} else {
			vals = append(vals, v)
		}
	}
	f, ok := entries[entry]
	if !ok {
		t.Fatalf("ZZ-REPLAY-ERROR unknown entry %q", entry)
	}
	func() {
		defer func() {
			if r := recover(); r != nil {
				if u, ok := r.(unrealisable); ok {
					unreal = true
					fmt.Printf("ZZ-UNREALISABLE %s\n", u.why)
					return
				}
				fmt.Printf("ZZ-PANIC %v\n", strings.ReplaceAll(fmt.Sprint(r), "\n", " "))
				st := string(debug.Stack())
				for _, l := range strings.Split(st, "\n") {
					if strings.Contains(l, "/repo/") || strings.Contains(l, "mixin") {
						fmt.Printf("ZZ-STACK %s\n", strings.TrimSpace(l))
					}
				}
			}
		}()
		f()
	}()
	fmt.Printf("ZZ-COVERS %s\n", strings.Join(covers, ","))
	fmt.Printf("ZZ-CONSUMED %d/%d\n", pos, len(vals))
	fmt.Printf("ZZ-DONE\n")
}

// NewKV: a real in-memory Badger; replaying on it validates the engine's KV model.
func NewKV() *badger.DB {
	opts := badger.DefaultOptions("").WithInMemory(true).WithLoggingLevel(badger.ERROR).WithMetricsEnabled(false)
	db, err := badger.Open(opts)
	if err != nil {
		panic(err)
	}
	return db
}

func KVConflicts() {}

// SizedBlob: a byte string of which only the length matters.
func SizedBlob(n int) []byte { return make([]byte, n) }

var zzWG sync.WaitGroup

// Go / Wait: real goroutines in replay (the schedule is the Go runtime's).
func Go(f func()) {
	zzWG.Add(1)
	go func() {
		defer zzWG.Done()
		f()
	}()
}

func Wait() { zzWG.Wait() }

var clocks []val

var (
	ufMemo  map[string]string
	ufSeq   map[string][]string
	ufCount map[string]int
)

func popClock(label string) uint64 {
	for len(clocks) > 0 {
		v := clocks[0]
		clocks = clocks[1:]
		if strings.HasPrefix(v.Label, "std") {
			continue // time.Now() readings of the standard library are not controlled natively
		}
		if v.Label != label {
			panic(unrealisable{"clock reading order differs: want " + label + " got " + v.Label})
		}
		n, _ := new(big.Int).SetString(v.Int, 10)
		return n.Uint64()
	}
	panic(unrealisable{"more clock readings than the model defines"})
}

func ClockNow() time.Time {
	ns := popClock("ns")
	sec := popClock("sec")
	return time.Unix(int64(sec), int64(ns%1000000000))
}

func ClockNano() uint64 { return popClock("nano") }

// HashLookup: the model's digest for this hash application, if the symbolic path made it
// (uninterpreted there); otherwise the caller computes the real hash.
func HashLookup(name string, data []byte) ([]byte, bool) {
	ab := append([]byte{byte(len(data))}, data...)
	h, ok := ufs["hash:"+name+":"+hex.EncodeToString(ab)]
	if !ok {
		return nil, false
	}
	b, err := hex.DecodeString(h)
	if err != nil {
		return nil, false
	}
	return b, true
}
