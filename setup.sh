#!/bin/sh
set -e
cd /verif/engine
export GOFLAGS=-mod=mod GOPROXY=off
mkdir -p /verif/bin
go build -o /verif/bin/gosym .
